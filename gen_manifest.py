#!/usr/bin/env python3
"""regenerates MANIFEST.json from the table below (kept as code so the manifest is always valid JSON)"""
import json, os

CLAIMED = {
    # id: (level text, level note, technique)
    'C02': ('Bounded symbolic model checking of the real validators: Rule.annotate + Rule.parse + '
            'LogicalType.__instancecheck__ are executed on solver variables (unbounded ints for bounds and '
            'values, symbolic lengths/strings within stated sizes); z3 decides every branch and the path tree is '
            'exhausted, so the biconditional accept <=> constraint-holds is decided for every value inside the '
            'bounds, including every boundary neighbour. Right level: the property is a biconditional over value '
            'domains whose failures sit on single boundary points.',
            'CrossHair proxy semantics + z3; diagnostic f-strings/warnings stubbed in the symbolic run only; every '
            'path witness re-executed on the unmodified library. Decimal/float digit constraints are checked through '
            'a symbolic as_tuple() contract stub plus picked literals (stated in evidence).',
            'symbolic execution of the real code (CrossHair primitives + z3), path-tree exhaustion, concrete replay'),
}
CLAIMED['C09'] = (
    'Bounded symbolic model checking of LogicalType.logical_parse / combine / LogicalMeta operators: for every ordered '
    'pair (and picked triples) of 10 leaf types the combinator verdict is compared with the verdicts of the arguments '
    'run alone on the same solver-chosen input (unbounded symbolic ints and thresholds where the leaves are arithmetic, '
    'picked vocabulary otherwise); order-independence of xor, identity of negation, sequential meaning of conjunction '
    'and the construction algebra are asserted on every path; all path trees are exhausted.',
    'argument acceptance is defined by type_transform(x, arg) under default options; text->number conversion only over '
    'the stated vocabulary; known finding K-C09-xor-exact-type is reported, not hidden',
    'symbolic execution of the real code (CrossHair primitives + z3), path-tree exhaustion, concrete replay')
CLAIMED['C16'] = (
    'Bounded symbolic model checking of TypeRegistry.register/resolve (and the public register_transformer / '
    'register_encoder entry points): every history of up to 4 operations (5 in the thorough tier) over a small class '
    'hierarchy, with the registered class, allow_subclasses, the priority (solver integer) and the resolved class '
    'chosen by the solver, is executed on the real registry and the identity of the resolved function is compared '
    'with a cache-free reference after every resolve; one obligation per operation-kind sequence, every tree exhausted. '
    'Histories are the quantifier of this property, so a bounded exhaustive exploration of histories is the right level.',
    'reference model of the documented rule (highest priority, latest wins, matching by own criteria); histories '
    'longer than the bound are outside the claim (state = ordered registration list + cache, argued not proved)',
    'symbolic execution of the real code (CrossHair primitives + z3) over operation histories, path-tree exhaustion, concrete replay')
CLAIMED['C18'] = (
    'Bounded symbolic model checking of RuntimeContext depth accounting through the real data-class / container / union '
    'parsers: max_depth m and the input depth d are solver integers, the position of the nested value at every level '
    '(list/tuple index, mapping key as a symbolic string including the empty key, union branch, plain field) is chosen by '
    'the solver, and accepted <=> d <= m is asserted on every path of the exhausted tree; cyclic inputs of length 1..3 '
    'over every route must be rejected with a depth error. Cost: a counting leaf converter measures work for solver-chosen '
    'depth/validity/width and is compared with a stated polynomial bound (depth <= 6, 8 thorough).',
    'depth exactness is proved within the bounds; the cost clause is checked up to the stated depth only (growth beyond it '
    'is extrapolated); known finding K-C18-union-stage-retry-exponential is reported, not hidden',
    'symbolic execution of the real code (CrossHair primitives + z3), path-tree exhaustion, concrete replay')
CLAIMED['C06'] = (
    'Bounded symbolic differential model checking of BaseParser.data_first_parse against field_first_parse: for 9 data '
    'class declarations (aliases, case-insensitive names, no_input/no_output, modes, dependencies, on_error policies, '
    'deferred defaults) the set of supplied keys (every accepted spelling, case variants, an unknown key), their order, '
    'their values (unbounded solver integers plus a convertible / an invalid string) and the options of one option group '
    '(ignore_required, no_default, force_default, defer_default, ignore_alias_conflicts, addition, min/max_params as solver '
    'integers, mode, invalid_values) are chosen by the solver; both strategies run on the same input and must give equal '
    'data or, on failure, equal collected (error class, item) sets; path trees are exhausted per declaration x group.',
    'a differential oracle needs no expected values; combinations of option groups and non-int field types are outside the '
    'bounds; known findings K-C06-distinct-aliases-* are reported, not hidden',
    'symbolic execution of the real code (CrossHair primitives + z3), differential assertion, path-tree exhaustion, concrete replay')
CLAIMED['C05'] = (
    'Bounded symbolic model checking of BaseParser.parse_data / ClassParser init / Schema views against a reference model '
    'of the documented field contract (vt/dcspec.py:reference): for 9 declarations x option groups x {Schema, DataClass} the '
    'supplied keys (every accepted spelling, case variants, an unknown key), their order and values (unbounded solver '
    'integers, a convertible and an invalid string), the lookup strategy and the options are solver-chosen; error kinds '
    '(fail-fast and collected), the key view, the attribute view, getattr incl. deferred defaults and `in` for every '
    'spelling must equal the model on every path of the exhausted trees.',
    'the reference model is part of the claim; where the documentation is silent (several differing spellings of one field) '
    'the model accepts either outcome; int-typed fields only; option groups are not combined in the quick tier',
    'symbolic execution of the real code against an executable reference model (CrossHair primitives + z3), path-tree exhaustion, concrete replay')
CLAIMED['C11'] = (
    'Bounded symbolic metamorphic model checking of Rule._parse_seq_args / _parse_map_args / ParserField.parse_value / '
    'BaseParser.parse_addition / FunctionParser.parse_pos_type: containers (list, variable-length tuple, set, frozenset, '
    'mapping keys and values, nested lists), data-class fields, extra keys and *args are filled with solver-chosen elements '
    '(solver integers against a symbolic ge-threshold, an invalid and a convertible string); offenders are computed by '
    'converting each element alone; under exclude the result must equal the strict result without the offenders, under '
    'preserve the strict result with the offenders put back unchanged at their positions, and a required field is never '
    'silently excluded; the 3 (x3 for mappings) policies are solver-picked; every tree is exhausted.',
    'container sizes <= 3 (4 thorough); element type int with ge; nested depth 2',
    'symbolic execution of the real code (CrossHair primitives + z3), metamorphic assertion, path-tree exhaustion, concrete replay')
CLAIMED['C10'] = (
    'Bounded symbolic differential model checking of RuntimeContext.handle_error / raise_error and every error site that '
    'continues after it (BaseParser parse loops, Rule args parsers, FunctionParser.parse_params, union branches): the same '
    'solver-chosen input is parsed with collect_errors off and on (max_errors solver-picked); the verdict and the value must '
    'be equal, the collected errors must name exactly the items that fail alone (reference model of C05 for data classes, '
    'element-wise conversion for containers, per-parameter validity for functions), none twice, no valid item, at most '
    'max_errors; trees exhausted.',
    'sizes: 5-6 keys per data class, containers <= 3 elements, one 4-parameter function; nested collection is not explored',
    'symbolic execution of the real code (CrossHair primitives + z3), differential assertion, path-tree exhaustion, concrete replay')
CLAIMED['C04'] = (
    'Two engines. (E1) symbolic execution of the real parse entry points (Rule.parse, LogicalType.logical_parse, '
    'init_dataclass, FunctionParser wrappers) for 50 declared types in 8 groups with solver-chosen inputs (solver ints, '
    'special floats, vocabulary and symbolic strings, bytes-likes, 30 hostile objects, containers / iterators / mappings of '
    'those; options and policies solver-picked in the structural obligations): anything but a ParseError leaving the call, a '
    'body / __validate__ that ran although the call failed, or a call that does not return (per-path alarm, replay under a '
    'watchdog) is a violation. These trees are not expected to close: solver-driven exploration, stated as non-exhaustive. '
    '(E2) the while loops of utils/transform.py are translated from their AST into QF_FP queries over all IEEE doubles '
    '(non-progress query + halving lemma, guards in front of the loop read from the source); both must be unsat in two z3 '
    'builds for the loop to count as terminating.',
    'E1 obligations report EXPLORED-NO-VIOLATION (bug-hunting strength) unless the tree closes; E2 obligations are proofs '
    'over all doubles for the recognised loop shape; loops of other shapes are INCONCLUSIVE, never passed',
    'symbolic execution of the real code (CrossHair primitives + z3) with concrete replay; SMT (z3 QF_FP) obligations generated from loop ASTs')
CLAIMED['C01'] = (
    'Symbolic execution of the real conversion paths (TypeTransformer.__call__/apply and converters, Rule.parse, args '
    'parsers, logical_parse, init_dataclass, FunctionParser) against a conformance oracle built from the same type descriptor '
    'as the real type (never from the library\'s type objects). Closing obligations: Rule[int](ge=a, lt=b) with unbounded '
    'symbolic a, b, x and seven container / union shapes over Rule[int](ge=a) with solver-chosen elements and conversion '
    'flags -- trees exhausted. Exploring obligations: 44 declared types in 7 groups (scalars, temporal, constrained, generics, '
    'nested, logical, data classes) and a decorated function (arguments seen by the body, return value) on the shared value '
    'generator -- solver-driven, every path replayed, stated as non-exhaustive.',
    'sym/* obligations are exhaustive within their bounds; conform/* and function report EXPLORED-NO-VIOLATION',
    'symbolic execution of the real code (CrossHair primitives + z3) against a descriptor-derived conformance oracle, concrete replay')
CLAIMED['C03'] = (
    'Symbolic execution of the real code asserting T(T(x)) == T(x): closing obligations for nine container / staged-union '
    'shapes over Rule[int](ge=a) (symbolic a, solver-chosen elements and flags) and for every lax constraint -- lax ge/le '
    'with unbounded symbolic bound and value (exact value asserted), lax length/max_length on symbolic strings and sequences, '
    'lax multiple_of (picked divisors, unbounded value), lax const/enum, lax unique_items, lax max_digits/decimal_places on '
    'picked Decimal literals -- each checked for fixed point and for acceptance by the strict form; exploring obligations for '
    'the 44 declared types of C01.',
    'Decimal literals are enumerated from a vocabulary (stated); float rounding is not modelled',
    'symbolic execution of the real code (CrossHair primitives + z3), metamorphic assertion, path-tree exhaustion where stated, concrete replay')
CLAIMED['C07'] = (
    'Bounded symbolic model checking of Schema mutation (item / attribute assignment and deletion, pop, popitem, update, '
    'setdefault, clear, |=, copy) as ONE INDUCTIVE STEP from an arbitrary valid state: the pre-state is built through the '
    'public API from solver-chosen presence bits and unbounded conforming solver integers, then one operation with solver-chosen '
    'key (every name, alias, the property, an unknown key) and value (unbounded int, convertible / invalid string, nested dict '
    'forms); afterwards either the operation raised and nothing changed, or every validity clause holds (conforming values, '
    'required present, immutable unchanged, views agree, no_output absent, dependant recomputed, copy independent). One '
    'obligation per class x operation, every tree exhausted; plus 2-3 step histories (explored) and the DataClass attribute API.',
    'the induction needs every reachable state to be a state of the generator; the history obligations probe that for 2 (3) '
    'steps; 3 Schema classes + 1 DataClass',
    'symbolic execution of the real code (CrossHair primitives + z3), inductive step over symbolic pre-states, path-tree exhaustion, concrete replay')
CLAIMED['C08'] = (
    'Bounded symbolic differential model checking of FunctionParser (signature analysis, parse_params, get_params, sync / '
    'coroutine / generator / async-generator wrappers, apply_class) against Python itself: an undecorated twin with the same '
    'signature is called with the same solver-chosen call shape (number of positionals, a presence bit per keyword spelling '
    'incl. alias and alias_from, extra keyword for **kw; every value an unbounded solver int, a convertible or an invalid '
    'string); whenever Python binds the call the decorated body must see exactly that binding, converted, must not run if any '
    'value is invalid, and the result must be converted; generators are driven with solver-chosen next/send sequences and '
    'their event streams compared with the twin\'s. 6 signatures (positional-only, keyword-only, *args: T, **kw: T, excluded '
    'parameter, Param alias / alias_from / default_factory), methods through @parse on a class, sync / async x lazy / eager '
    'wrappers; every tree exhausted.',
    'int parameters only; <= 3 generator steps; coroutines stepped manually (no event loop)',
    'symbolic execution of the real code (CrossHair primitives + z3), differential against Python binding, path-tree exhaustion, concrete replay')
CLAIMED['C19'] = (
    'Symbolic execution of the real code with purity assertions: (a) a structural snapshot (identity, length, keys, element '
    'identity of every reachable container) of solver-chosen nested inputs must be unchanged after the parse, on success and on '
    'failure, for 16 container / data-class types under solver-picked flags and invalid_* policies (explored); (b) for every '
    'mutable default kind (list, nested list, dict, nested dict, set, tuple of mutables, default_factory, force_default) a '
    'solver-picked in-place mutation at a solver-picked nesting level of one instance / call leaves an earlier instance, a later '
    'instance and the declared default unchanged (exhausted); (c) a declaration that has served 0..2 solver-picked earlier '
    'parses gives the same outcome as a fresh identical declaration (exhausted).',
    'input obligations are non-exhaustive (stated); literals come from stated vocabularies',
    'symbolic execution of the real code (CrossHair primitives + z3), metamorphic / differential assertions, concrete replay')
CLAIMED['C12'] = (
    'Symbolic execution of the real converters (TypeTransformer.to_* and the args parsers, union stages, data-class input) with '
    'the same solver-chosen source converted under {}, {no_explicit_cast}, {no_data_loss} and both: whatever a flag set '
    'accepts must be accepted without it with an equal value of the same type, and the documented promises are asserted '
    'directly (int only from integral numbers with the value preserved, bool only from unambiguous forms, no multi-element '
    'collection collapsing into a scalar, strict bytes decoding, no datetime / timed string becoming a date, extra tuple items '
    'and unknown keys rejected, no cross-group conversion under no_explicit_cast apart from the documented exceptions). 26 '
    'targets x the shared value generator; solver-driven exploration with every path replayed.',
    'non-exhaustive (stated): EXPLORED-NO-VIOLATION per target; float -> int exact only for the picked float values',
    'symbolic execution of the real code (CrossHair primitives + z3), metamorphic assertions across option sets, concrete replay')
CLAIMED['C13'] = (
    'Symbolic execution of the real generator and parser: (outputs) for 41 JSON-expressible, negation-free types T(x) is JSON-encoded '
    'with the library encoder and validated against JsonSchemaGenerator(T, output=True)() by a traceable mini validator (cross-checked '
    'against the jsonschema library on every witness); (structure) for 9 data-class declarations x class-level mode x addition policy '
    'the input schema is compared with parser behaviour probed on the same class: a solver-picked key is listed <=> changing its value '
    'changes the outcome, a solver-picked property is in required <=> its absence is an AbsenceError, additionalProperties <=> unknown '
    'keys dropped / kept / rejected / converted, and the parser output validates against the output schema; the generator\'s mode= '
    'argument must agree with the class-options route. Metaschema validity of every emitted document is a concrete side condition '
    'checked with the jsonschema library in the replay.',
    'structure obligations exhaust their (finite) trees; outputs obligations are explored (stated); known finding '
    'K-C13-decimal-js-unsafe-string is reported, not hidden',
    'symbolic execution of the real code (CrossHair primitives + z3) with behavioural probing and a validated mini JSON-Schema validator, concrete replay')
CLAIMED['C15'] = (
    'Symbolic execution of JsonSchemaParser (parse_type / parse_object / parse_array / parse_field / get_constraints / '
    'get_attname) and of the types it builds, with the SCHEMA as the symbolic program: keyword presence bits, numeric keyword '
    'values as solver integers, type / format / pattern / enum / const picks, property names from a hostile vocabulary '
    '(non-identifiers, keywords, mapping methods, empty), required / additionalProperties / dependentRequired bits, '
    'items / prefixItems / anyOf / oneOf / allOf nesting. Building may raise nothing but ConfigError, and that only for a '
    'constraint set for which the harness finds no instance; every value the built type returns for a solver-chosen instance '
    'under strict options must validate against the source schema (mini validator cross-checked against jsonschema).',
    'numeric / string / enum-const trees are exhausted, array / object / composition are explored (stated); ten known findings '
    '(refused satisfiable schemas, allOf / oneOf / null semantics, empty property name) are reported individually, not hidden',
    'symbolic execution of the real code (CrossHair primitives + z3) with the schema as symbolic input and a validated mini JSON-Schema validator, concrete replay')
CLAIMED['C14'] = (
    'Symbolic execution of the real encoder and parser on the round trip instance -> json.dumps(cls=JSONEncoder) -> same class: '
    'every value of the JSON-faithful domain is built from solver integers (code points, date / clock fields, UTC offset minutes in '
    '-1439..1439, timedelta days / seconds / microseconds, the two halves of a UUID, Decimal coefficient and exponent) that are '
    'split into regions by explicit branches (sign, zero, boundaries) so that the solver must produce a model in every region, then '
    'realised; the text must be standard JSON and parse back to an equal instance (same type per field, same UTC offset); '
    'containers, nested data classes and lists / maps of temporal values included.',
    'solver-driven region coverage, NOT exhaustive over the value domain (isoformat / strptime / json are C code that concretise): '
    'every obligation reports EXPLORED-NO-VIOLATION; Decimal <-> float text conversion is exercised on realised values only; '
    'known finding K-C14-float-infinity-non-standard-json is reported, not hidden',
    'symbolic execution of the real code (CrossHair primitives + z3) with explicit region splits, concrete replay')
CLAIMED['C17'] = (
    'Bounded symbolic differential model checking of forward-reference resolution (register_forward_ref, '
    'BaseParser.resolve_forward_refs at first parse, Rule / LogicalType / ParserField.resolve_forward_refs, ForwardRef handling in '
    'the transformer): three systems of declarations are generated as module source in a forward spelling (strings, names '
    'defined later, postponed evaluation, mutual recursion in either order, the same name in several constrained annotations, '
    'decorated function parameters / return, function-local classes created twice) and a direct spelling (or a finite unrolling), '
    'executed inside the path under fresh names; the first-use order (none / A / B / an invalid parse first) and the inputs '
    '(which field carries the reference, nesting shape, unbounded solver integers and convertible / invalid strings) are '
    'solver-chosen; outcomes must be equal from the first call on.',
    'three systems; nesting depth <= 3; typing internals run concretely',
    'symbolic execution of the real code (CrossHair primitives + z3), differential between two generated declarations, path-tree exhaustion, concrete replay')
CLAIMED['C20'] = (
    'Schedules as solver variables (engine E3, vt/sched.py): real threads execute real utype calls under a hand-off scheduler that '
    'parks every worker at each line boundary of the watched functions (BaseParser.__call__ / resolve_forward_refs / apply_for, '
    'FunctionParser / ParserField / Rule / LogicalType.resolve_forward_refs, register_forward_ref, TypeRegistry.register / resolve); '
    'the controller decides continue / switch with solver booleans, so the E1 search tree IS the schedule tree and its exhaustion '
    'means that every schedule within the bound was executed; exactly one thread runs at a time, so every counterexample is a '
    'replayable decision vector. Scenarios: first parse of a class with pending forward references (two threads, valid / invalid '
    'inputs), nested first use, function-local classes, first call of a decorated function with forward-referenced annotations, and '
    'registrations racing conversions in the shared converter registry (linearizability against both sequential orders). '
    'Assertion: every thread returns what its call returns alone on a fresh identical system.',
    'bounded: 2 threads, 1 preemption (2 thorough) + the hand-over at thread end, preemption only at watched line boundaries; a thread '
    'that does not report within 0.15 s while holding the turn is treated as blocked on a lock (the repaired library serialises the '
    'lazy resolution); the solver role is bookkeeping of the schedule tree -- thin, and said so',
    'schedule exploration with thread schedules as solver variables (CrossHair StateSpace + z3 decisions over a deterministic hand-off scheduler), tree exhaustion, concrete replay')
NOT_APPLICABLE = {}

def main():
    props = [json.loads(l) for l in open(os.path.join(os.path.dirname(__file__), 'properties.jsonl'))]
    checks = []
    for p in props:
        pid = p['id']
        if pid not in CLAIMED:
            continue
        text, note, tech = CLAIMED[pid]
        checks.append({
            'property_id': pid,
            'quick_cmd': './check %s --tier quick' % pid,
            'thorough_cmd': './check %s --tier thorough' % pid,
            'evidence_file': 'evidence/%s.json' % pid,
            'replay_cmd_template': './check %s --replay {path}' % pid,
            'engine': 'vt',
            'level_claimed': {'category': 'model_checking', 'text': text, 'design_ref': 'DESIGN.md section 3 (%s)' % pid},
            'level_note': note,
            'technique': tech,
        })
    na = [{'property_id': p['id'], 'reason': NOT_APPLICABLE.get(p['id'], 'check not built yet (work in progress); no claim is made')}
          for p in props if p['id'] not in CLAIMED]
    m = {
        'version': 1,
        'setup_cmd': './setup.sh',
        'hooks': {
            'guard': 'UTYPE_VERIF',
            'enable': 'no source hooks: checks load /repo/utype through an import hook in /verif/vt/fmtstub.py (UTYPE_VERIF=1 is exported by the runner for documentation only)',
            'baseline_off_cmd': 'cd /repo && /venv/bin/python -m pytest -ra -q -p no:cacheprovider --timeout=900 --continue-on-collection-errors',
            'source_commits': [],
            'add_only': True,
        },
        'engines': [
            {'name': 'vt', 'path': 'vt/', 'serves_properties': sorted(CLAIMED),
             'kind_free_text': 'E1 sx: path-exhaustive symbolic execution of the real utype code on CrossHair 0.0.110 primitives with z3; '
                               'E2 loopsmt: SMT-LIB (QF_FP/LIA) obligations generated from loop ASTs; E3 sched: thread schedules as solver variables'},
        ],
        'checks': checks,
        'not_applicable': na,
        'notes': 'All checks: ./check <ID> --tier quick|thorough. Known findings: known_findings.json. Design: DESIGN.md.',
    }
    with open(os.path.join(os.path.dirname(__file__), 'MANIFEST.json'), 'w') as f:
        json.dump(m, f, indent=1)

if __name__ == '__main__':
    main()
