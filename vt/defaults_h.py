"""fresh-copy-of-defaults harness shared by C05 (field contract: 'a fresh copy of their default') and C19 (purity)"""
from typing import List

import utype
from utype import Field, Options, Param, Schema

def mk_defaults():
    return {
        'list': [1, 2],
        'nested_list': [[1], {'k': [2]}],
        'dict': {'a': 1},
        'nested_dict': {'a': {'b': [1]}, 'c': [2, {'d': 3}]},
        'set': {1, 2},
        'tuple_of_list': ([1], {'k': 2}),
    }


D0 = mk_defaults()


class WithDefaults(Schema):
    l: list = D0['list']
    nl: list = Field(default=D0['nested_list'])
    d: dict = D0['dict']
    nd: dict = Field(default=D0['nested_dict'])
    s: set = Field(default=D0['set'])
    t: tuple = Field(default=D0['tuple_of_list'])
    f: List[dict] = Field(default_factory=lambda: [{'k': []}])


@utype.parse
def fn_defaults(l: list = D0['list'], nd: dict = Param(D0['nested_dict']), nl: list = Param(D0['nested_list']),
                t: tuple = Param(D0['tuple_of_list']), f: list = Param(default_factory=lambda: [{'k': []}])):
    return dict(l=l, nd=nd, nl=nl, t=t, f=f)


class InnerD(Schema):
    x: int = 2
    tags: list = Field(default_factory=list)


def mk_inner():
    return InnerD(x=2, tags=[1, [2]])


INNER0 = mk_inner()


class OuterD(Schema):
    inner: InnerD = INNER0


class Forced(Schema):
    __options__ = Options(force_default=[[0]])
    a: list
    b: list


MUTATIONS = {
    'l': [lambda v: v.append(9), lambda v: v.__setitem__(0, 9)],
    'nl': [lambda v: v.append(9), lambda v: v[0].append(9), lambda v: v[1]['k'].append(9), lambda v: v[1].__setitem__('z', 1)],
    'd': [lambda v: v.__setitem__('z', 9)],
    'nd': [lambda v: v.__setitem__('z', 9), lambda v: v['a'].__setitem__('z', 9), lambda v: v['a']['b'].append(9),
           lambda v: v['c'].append(9), lambda v: v['c'][1].__setitem__('d', 9)],
    's': [lambda v: v.add(9)],
    't': [lambda v: v[0].append(9), lambda v: v[1].__setitem__('z', 9)],
    'f': [lambda v: v.append(9), lambda v: v[0]['k'].append(9)],
}



BOUNDS = ('a data-class instance as declared default (class kept, own copy per instance); Schema and @parse function with list / nested list / dict / nested dict (dict of dict of list, list of dict) / set / '
          'tuple-of-mutables / default_factory defaults, and Options(force_default=[[0]]): a solver-picked field and a '
          'solver-picked in-place mutation at a solver-picked nesting level of one instance\'s (call\'s) value; a second '
          'instance built before, one built afterwards and the declared default object are unchanged')


def defaults(V):
    which = V.pick('target', ['schema', 'function', 'forced', 'instance-default'])
    pristine = mk_defaults()
    if which == 'instance-default':
        # a data-class instance as declared default: every new instance gets its own copy, of the same class
        a, b = OuterD(), OuterD()
        m = V.pick('mutation', [lambda v: v.tags.append(9), lambda v: v.tags[1].append(9), lambda v: v.__setitem__('x', 5),
                                lambda v: None])
        det0 = lambda: 'OuterD().inner -> %r (%s)' % (a.inner, type(a.inner).__name__)
        V.check(type(a.inner) is InnerD and a.inner == mk_inner(), 'pure:instance-default-not-preserved', det0)
        m(a.inner)
        c = OuterD()
        det = lambda: 'OuterD(): mutated instance 1; instance 2 %r, later instance %r, declared default %r' % (b.inner, c.inner, INNER0)
        V.check(b.inner == mk_inner() and c.inner == mk_inner(), 'pure:default-shared-with-earlier-instance', det)
        V.check(INNER0 == mk_inner() and a.inner is not INNER0, 'pure:declared-default-mutated', det)
        V.cover('instance-default')
        return
    if which == 'forced':
        a, b = Forced(), Forced()
        m = V.pick('mutation', [lambda v: v.append(9), lambda v: v[0].append(9)])
        fld = V.pick('field', ['a', 'b'])
        m(a[fld])
        c = Forced()
        det = lambda: 'Forced(): mutated instance 1 field %s; instance 2 %r, later instance %r' % (fld, dict(b), dict(c))
        V.check(dict(b) == {'a': [[0]], 'b': [[0]]} and dict(c) == {'a': [[0]], 'b': [[0]]}, 'pure:forced-default-shared', det)
        other = 'b' if fld == 'a' else 'a'
        V.check(a[other] == [[0]], 'pure:forced-default-shared-between-fields', lambda: repr(dict(a)))
        V.cover('forced')
        return
    fld = V.pick('field', sorted(MUTATIONS) if which == 'schema' else ['l', 'nd', 'nl', 't', 'f'])
    muts = MUTATIONS[fld]
    mi = V.pick('mutation', list(range(len(muts))))
    if which == 'schema':
        one, two = WithDefaults(), WithDefaults()
        get = lambda inst: dict(inst)
    else:
        one, two = fn_defaults(), fn_defaults()
        get = lambda res: res
    muts[mi](get(one)[fld])
    three = WithDefaults() if which == 'schema' else fn_defaults()
    expect = {'l': pristine['list'], 'nl': pristine['nested_list'], 'd': pristine['dict'], 'nd': pristine['nested_dict'],
              's': pristine['set'], 't': pristine['tuple_of_list'], 'f': [{'k': []}]}
    if which == 'function':
        expect = {k: expect[k] for k in ('l', 'nd', 'nl', 't', 'f')}
    det = lambda: '%s: field %s mutation #%d on the first value; second %r ; later %r ; declared defaults %r' % (
        which, fld, mi, get(two), get(three), D0)
    V.check(get(two) == expect, 'pure:default-shared-with-earlier-instance', det)
    V.check(get(three) == expect, 'pure:default-shared-with-later-instance', det)
    V.check(D0 == pristine, 'pure:declared-default-mutated', det)
    V.cover(which)


