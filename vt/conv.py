"""helpers shared by the conversion harnesses (C01, C03, C12, C19)"""
from utype import Options
from utype.utils.transform import type_transform
from vt import typedesc as td

I, S = ('int',), ('str',)
GROUPS = {
    'scalar': [('int',), ('float',), ('str',), ('bool',), ('none',), ('bytes',), ('decimal',), ('enum',), ('uuid',)],
    'temporal': [('date',), ('datetime',), ('time',), ('timedelta',)],
    'constrained': [('rule', I, {'ge': 0, 'lt': 10}), ('rule', S, {'max_length': 3}), ('rule', S, {'regex': '[a-z]+'}),
                    ('rule', I, {'multiple_of': 3}), ('rule', ('decimal',), {'max_digits': 4, 'decimal_places': 2}),
                    ('rule', ('float',), {'gt': 0.0}), ('rule', ('float',), {'ge': 0.0, 'le': 1.0}),
                    ('list', ('rule', ('float',), {'ge': 0.0})), ('crule', {'enum': ['a', 'b', 3]}), ('crule', {'const': 1}),
                    ('list', ('crule', {'enum': [1, 2]})), ('dict', ('str',), ('crule', {'const': 'k'})), ('rule', ('list', I), {'unique_items': True, 'max_length': 2}),
                    ('rule', S, {'enum': ['a', 'b']}), ('rule', I, {'const': 1}), ('rule', ('dict', S, I), {'min_length': 1})],
    'generic': [('list', I), ('set', I), ('frozenset', I), ('tuple', [I, S]), ('vtuple', I), ('dict', S, I)],
    'nested': [('dict', I, ('list', I)), ('list', ('list', I)), ('list', ('opt', I)), ('list', ('dc', 'TInner')),
               ('dict', S, ('dc', 'TInner')), ('list', ('rule', I, {'ge': 0}))],
    'logical': [('opt', I), ('union', I, S), ('union', I, ('list', I)), ('xor', ('rule', I, {'gt': 0}), ('rule', I, {'lt': 0})),
                ('andnot', ('float',), ('rule', ('float',), {'const': 0.0})), ('union', ('dc', 'TInner'), I),
                ('union', ('rule', I, {'gt': 0}), S), ('xor', ('rule', I, {'ge': 0}), ('rule', I, {'le': 5})),
                ('list', ('xor', ('rule', I, {'multiple_of': 2}), ('rule', I, {'lt': 3})))],
    'dataclass': [('dc', 'TInner'), ('dc', 'TOuter'), ('dc', 'TNoIn')],
}
TYPES = {}


def real(d):
    key = repr(d)
    if key not in TYPES:
        TYPES[key] = td.make(d)
    return TYPES[key]


def sym_flags(V, few=False):
    o = {}
    f = V.pick('flags', ['none', 'no_data_loss', 'collect_errors'] if few and not V.thorough else
               ['none', 'no_explicit_cast', 'no_data_loss', 'both', 'collect_errors'])
    if f in ('no_explicit_cast', 'both'):
        o['no_explicit_cast'] = True
    if f in ('no_data_loss', 'both'):
        o['no_data_loss'] = True
    if f == 'collect_errors':
        o['collect_errors'] = True
    return o


def parse(T, x, o):
    try:
        return ('ok', type_transform(x, T, Options(**o)))
    except Exception:  # noqa  any failure is C04's business
        return ('err',)


def small(V, name, lo=None, hi=None):
    k = V.pick(name + '_k', ['int', 'bool', 'none', 'num', 'float', 'bad'])
    if k == 'int':
        if lo == 'pick':
            return V.pick(name + '_i', [-7, -1, 0, 1, 7])
        return V.int(name, lo, hi)
    if k == 'bool':
        return V.bool(name + '_b')
    if k == 'none':
        return None
    if k == 'num':
        return V.pick(name + '_s', ['5', '-3', ' 2 ', '1.5', ''])
    if k == 'float':
        return V.pick(name + '_f', [1.5, -0.5, 2.0, float('nan')])
    return V.pick(name + '_x', ['x', b'7', [4], {'a': 1}])


def tiny(V, name, pick_int):
    k = V.pick(name + '_k', ['int', 'bool', 'none', 'num', 'float', 'bad'])
    if k == 'int':
        return V.pick(name + '_i', [-7, -1, 0, 1, 7]) if pick_int else V.int(name, -6, 6)
    if k == 'bool':
        return V.bool(name + '_b')
    return {'none': None, 'num': '5', 'float': 1.5, 'bad': 'x'}[k]


