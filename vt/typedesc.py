"""type descriptors: one small term language from which both the real utype type and the conformance oracle are built
(so that the oracle never introspects the library's own type objects).

  ('int',) ('float',) ('str',) ('bool',) ('none',) ('bytes',) ('decimal',) ('date',) ('datetime',) ('time',)
  ('timedelta',) ('uuid',) ('enum',) ('any',)
  ('rule', base, {constraint: value})
  ('list', e) ('set', e) ('frozenset', e) ('vtuple', e) ('tuple', [e1, e2, ..]) ('dict', k, v)
  ('union', d1, d2, ..) ('xor', d1, d2, ..) ('andnot', d, dneg) ('opt', d)
  ('dc', name)           data classes registered in DATACLASSES
"""
import re
import uuid
from datetime import date, datetime, time, timedelta
from decimal import Decimal
from typing import Any, Dict, FrozenSet, List, Optional, Set, Tuple, Union

from utype import Field, Options, Rule, Schema
from utype.parser.rule import LogicalType
from vt.values import Color

PRIMS = {'int': int, 'float': float, 'str': str, 'bool': bool, 'none': type(None), 'bytes': bytes, 'decimal': Decimal,
         'date': date, 'datetime': datetime, 'time': time, 'timedelta': timedelta, 'uuid': uuid.UUID, 'enum': Color}


class TInner(Schema):
    x: int = Field(ge=0)
    y: str = ''


class TOuter(Schema):
    inner: TInner
    kids: List[TInner] = Field(default_factory=list)
    opt: Optional[int] = None
    tags: Set[int] = Field(default_factory=set)
    pair: Tuple[int, str] = (0, '')
    m: Dict[str, int] = Field(default_factory=dict)
    s: str = Field(max_length=3, default='')


class TNoIn(Schema):
    __options__ = Options(addition=False)
    title: str
    stamp: int = Field(no_input=True, default=7)
    views: int = Field(no_input=True, default_factory=int)


DATACLASSES = {
    'TNoIn': (TNoIn, {'title': ('str',), 'stamp': ('int',), 'views': ('int',)}),
    'TInner': (TInner, {'x': ('rule', ('int',), {'ge': 0}), 'y': ('str',)}),
    'TOuter': (TOuter, {'inner': ('dc', 'TInner'), 'kids': ('list', ('dc', 'TInner')), 'opt': ('opt', ('int',)),
                        'tags': ('set', ('int',)), 'pair': ('tuple', [('int',), ('str',)]), 'm': ('dict', ('str',), ('int',)),
                        's': ('rule', ('str',), {'max_length': 3})}),
}


def annotation(d):
    k = d[0]
    if k in PRIMS:
        return PRIMS[k]
    if k == 'any':
        return Any
    if k == 'crule':
        # a constraint-only Rule (no source type)
        return type('CRule', (Rule,), dict(d[1]))
    if k == 'rule':
        b = d[1]
        if b[0] in ('list', 'set', 'frozenset', 'vtuple'):
            origin = {'list': list, 'set': set, 'frozenset': frozenset, 'vtuple': tuple}[b[0]]
            args = (make(b[1]),) + ((...,) if b[0] == 'vtuple' else ())
            return Rule.annotate(origin, *args, constraints=dict(d[2]))
        if b[0] == 'dict':
            return Rule.annotate(dict, make(b[1]), make(b[2]), constraints=dict(d[2]))
        return Rule.annotate(annotation(b), constraints=dict(d[2]))
    if k == 'list':
        return List[annotation(d[1])]
    if k == 'set':
        return Set[annotation(d[1])]
    if k == 'frozenset':
        return FrozenSet[annotation(d[1])]
    if k == 'vtuple':
        return Tuple[annotation(d[1]), ...]
    if k == 'tuple':
        return Tuple[tuple(annotation(x) for x in d[1])]
    if k == 'dict':
        return Dict[annotation(d[1]), annotation(d[2])]
    if k == 'union':
        return Union[tuple(annotation(x) for x in d[1:])]
    if k == 'opt':
        return Optional[annotation(d[1])]
    if k == 'xor':
        return LogicalType.one_of(*[make(x) for x in d[1:]])
    if k == 'andnot':
        return LogicalType.all_of(make(d[1]), LogicalType.not_of(make(d[2])))
    if k == 'dc':
        return DATACLASSES[d[1]][0]
    raise ValueError(d)


def make(d):
    """the real utype type for descriptor d (what a field annotated with it would use)"""
    return Rule.parse_annotation(annotation(d))


def _digits(v):
    sign, digits, exp = Decimal(str(v)).as_tuple() if not isinstance(v, Decimal) else v.as_tuple()
    if not isinstance(exp, int):
        return None
    digits = list(digits)
    while len(digits) > 1 and exp < 0 and digits[-1] == 0:
        digits.pop()
        exp += 1
    if exp >= 0:
        return len(digits) + exp, 0
    return max(len(digits), -exp), -exp


def check_constraints(cons, v):
    for c, a in cons.items():
        if c == 'ge' and not v >= a:
            return False
        if c == 'gt' and not v > a:
            return False
        if c == 'le' and not v <= a:
            return False
        if c == 'lt' and not v < a:
            return False
        if c == 'max_length' and not len(v) <= a:
            return False
        if c == 'min_length' and not len(v) >= a:
            return False
        if c == 'length' and not len(v) == a:
            return False
        if c == 'regex' and not re.fullmatch(a, v):
            return False
        if c == 'multiple_of' and not v % a == 0:
            return False
        if c == 'const' and not (v == a and type(v) is type(a)):
            return False
        if c == 'enum' and not any(v == x and type(v) is type(x) for x in a):
            return False
        if c == 'unique_items':
            seen = []
            for x in v:
                if any(x == y and type(x) is type(y) for y in seen):
                    return False
                seen.append(x)
        if c in ('max_digits', 'decimal_places'):
            dg = _digits(v)
            if dg is None:
                return False
            if c == 'max_digits' and dg[0] > a:
                return False
            if c == 'decimal_places' and dg[1] > a:
                return False
    return True


def conforms(d, v):
    k = d[0]
    if k in PRIMS:
        return isinstance(v, PRIMS[k])
    if k == 'any':
        return True
    if k == 'crule':
        return check_constraints(d[1], v)
    if k == 'rule':
        return conforms(d[1], v) and check_constraints(d[2], v)
    if k in ('list', 'set', 'frozenset', 'vtuple'):
        origin = {'list': list, 'set': set, 'frozenset': frozenset, 'vtuple': tuple}[k]
        return isinstance(v, origin) and all(conforms(d[1], x) for x in v)
    if k == 'tuple':
        return isinstance(v, tuple) and len(v) >= len(d[1]) and all(conforms(e, x) for e, x in zip(d[1], v))
    if k == 'dict':
        return isinstance(v, dict) and all(conforms(d[1], a) and conforms(d[2], b) for a, b in v.items())
    if k == 'union':
        return any(conforms(x, v) for x in d[1:])
    if k == 'xor':
        # exactly one argument describes the value (the descriptors used here have constrained arguments only: the
        # exact-type shortcut of OneOf -- known finding K-C09 -- applies to plain-type arguments)
        return sum(1 for x in d[1:] if conforms(x, v)) == 1
    if k == 'opt':
        return v is None or conforms(d[1], v)
    if k == 'andnot':
        return conforms(d[1], v) and not conforms(d[2], v)
    if k == 'dc':
        cls, fields = DATACLASSES[d[1]]
        if not isinstance(v, cls):
            return False
        for name, fd in fields.items():
            if dict.__contains__(v, name) and not conforms(fd, dict.__getitem__(v, name)):
                return False
        return True
    raise ValueError(d)


def show(d):
    k = d[0]
    if k in PRIMS or k == 'any':
        return k
    if k == 'crule':
        return 'Rule%r' % (d[1],)
    if k == 'rule':
        return '%s%r' % (show(d[1]), d[2])
    if k == 'tuple':
        return 'tuple[%s]' % ','.join(show(x) for x in d[1])
    if k == 'dc':
        return d[1]
    return '%s[%s]' % (k, ','.join(show(x) for x in d[1:]))
