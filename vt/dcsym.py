"""solver-chosen options and inputs for the spec-generated data classes (shared by C05 / C06 / C10)"""
from vt import dcspec

GROUPS = {
    'plain': [],
    'required': ['ignore_required', 'no_default'],
    'defaults': ['force_default', 'defer_default'],
    'alias': ['ignore_alias_conflicts', 'case_insensitive'],
    'addition': ['addition'],
    'params': ['params'],
    'mode': ['mode'],
    'policy': ['invalid_values'],
}

QUICK = {
    'basic': ['plain', 'required', 'defaults', 'addition', 'params', 'policy'],
    'alias': ['plain', 'alias', 'addition'],
    'case': ['plain', 'alias', 'required'],
    'io': ['plain', 'mode', 'defaults', 'required', 'alias'],
    'mode': ['mode', 'required'],
    'modereq': ['mode'],
    'modeout': ['mode'],
    'final': ['plain'],
    'aliaserr': ['plain', 'alias'],
    'deps': ['plain', 'required', 'alias'],
    'onerr': ['plain', 'policy', 'required', 'defaults'],
    'defer': ['plain', 'defaults', 'required'],
    'depio': ['plain', 'required', 'alias'],
    'aliasgen': ['plain', 'addition'],
    'mix': [g for g in GROUPS if g != 'params'],
}


def applicable(spec, group):
    if group == 'mode' and spec not in ('mode', 'io', 'mix', 'modereq', 'modeout'):
        return False
    if group == 'policy' and spec not in ('onerr', 'basic', 'mix'):
        return False
    return True


def sym_options(V, group):
    """class-level Options chosen by the solver (finite choices; data_first_search / collect_errors are added by callers)"""
    o = {}
    for g in GROUPS[group]:
        if g in ('ignore_required', 'no_default', 'defer_default', 'ignore_alias_conflicts', 'case_insensitive'):
            if V.bool(g):
                o[g] = True
        elif g == 'force_default':
            if V.bool(g):
                o[g] = 0
        elif g == 'addition':
            a = V.pick('addition', [None, True, False, int, dcspec.LIST_INT])
            if a is not None:
                o['addition'] = a
        elif g == 'params':
            mx = V.pick('max_params', [None, 1, 2, 3] if V.thorough else [None, 1, 2])
            mn = V.pick('min_params', [None, 1, 2, 3] if V.thorough else [None, 2])
            if mx:
                o['max_params'] = mx
            if mn:
                o['min_params'] = mn
        elif g == 'mode':
            m = V.pick('mode', [None, 'r', 'w', 'a'])
            if m:
                o['mode'] = m
        elif g == 'invalid_values':
            p = V.pick('invalid_values', ['throw', 'exclude', 'preserve'])
            if p != 'throw':
                o['invalid_values'] = p
    if o.get('no_default') and 'force_default' in o:
        del o['force_default']
    return o


def sym_items(V, spec_id, limit=None, strs=True):
    """solver-chosen ordered input mapping over the key vocabulary of the declaration"""
    keys = dcspec.key_vocab(spec_id, limit)
    items = []
    for k in keys:
        if V.bool('has_' + k):
            items.append([k, None])
    # at most one present key (the first or the last one) carries a string instead of an int
    odd = V.pick('odd', ['none', 'first', 'last']) if strs and items else 'none'
    for i, it in enumerate(items):
        if (odd == 'first' and i == 0) or (odd == 'last' and i == len(items) - 1):
            it[1] = V.pick('str_' + it[0], ['x', '5'])
        else:
            it[1] = V.int('v_' + it[0])
    items = [tuple(it) for it in items]
    spec = dcspec.SPECS[spec_id]
    twice = any(sum(1 for k, v in items if dcspec.matches(f, k, {'case_insensitive': True})) > 1 for f in spec)
    if twice and V.bool('reversed'):
        items.reverse()
    return items


def limit_for(V, spec_id, group, wide_alias=False):
    if wide_alias and group == 'alias' and spec_id in ('io', 'depio'):
        # room for a second letter case of the no-input fields
        return V.T(7, 8)
    return V.T(5 if spec_id == 'onerr' or group != 'plain' else 6, 7 if group != 'plain' else 8)


def bounds_text(spec, group, base):
    return ('declaration %r (fields %s) as a %s; input = solver-chosen subset (and order: as listed or reversed) of the key '
            'vocabulary [accepted spellings, case variants, one unknown key; 6 keys quick (5 with an option group or for '
            'onerr; 7 for io / depio with the alias group in C06), 8 thorough (7 with an option group)] with unbounded symbolic int values and at most one key (first or last present) carrying '
            '"x" (invalid) or "5" (convertible); class-level option group %r symbolic: %s' % (
                spec, ', '.join(f['name'] for f in dcspec.SPECS[spec]), base, group, GROUPS[group] or 'none'))
