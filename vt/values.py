"""solver-chosen input values shared by the harnesses (C01, C03, C04, C12, C19)"""
import collections
import uuid
from datetime import date, datetime, time, timedelta
from decimal import Decimal
from enum import Enum

from utype import Schema


class Color(Enum):
    RED = 1
    BLUE = 'b'


class Inner(Schema):
    x: int
    y: str = ''


V_NUM = ['', '0', '1', '-3', '1.5', '1e3', ' 2 ', 'abc', 'inf', '-inf', 'nan', 'true', 'null', '٣', '1_0', '0x10', '1e400']
V_STRUCT = ['[1,2]', '{"a":1}', 'a,b', 'a=1&b=2', '()', '[', '{"a":', '[1,"x"]', '{"x":1}', '{"x":"q"}', '1;2']
V_TIME = ['2022-03-04 00:00:00.250000', '2022-03-04T00:00:00.5', '2022-03-04 00:00:00', '2022-03-04', '2022-03-04 10:11:12', '2022-03-04T10:11:12Z', '2022-13-45', '10:11:12', '25:00', 'P1D', 'PT1.5S',
          '1 day, 0:00:10', '2022-03-04 10:11:12 -0800', '2022-03-04T10:11:12+08:00', 'Fri, 04 Mar 2022 10:11:12 GMT', 'P',
          '99999999999999999999', '-1e20']
INTS = [0, 1, -1, 7, -3, 10, 255, 2 ** 31, 10 ** 20, -10 ** 20, 2 * 10 ** 10, 253402300800]
FLOATS = [1234.5, 99.99, 86400.25, 1646352000.5, 86400.0, 0.0, 1.5, -2.5, float('inf'), float('-inf'), float('nan'), 1e30, -1e30, 2e10, 1e308, 5e-324]
BYTES = [b'', b'7', b'\xff', b'[1]', bytearray(b'5'), memoryview(b'3')]


class Weird:
    pass


class BadStr:
    def __str__(self):
        raise RuntimeError('no str')


def hostile(i):
    """fresh hostile object number i (fresh: iterators are consumed)"""
    return [
        lambda: object(), lambda: Weird, lambda: Weird(), lambda: iter([1, 'x']), lambda: (i for i in (1, 2)),
        lambda: Decimal('Infinity'), lambda: Decimal('NaN'), lambda: Decimal('sNaN'), lambda: 10 ** 400, lambda: -10 ** 400,
        lambda: complex(1, 2), lambda: Color.RED, lambda: date(2020, 1, 2), lambda: datetime(2020, 1, 2, 3, 4, 5),
        lambda: timedelta(days=1), lambda: time(1, 2), lambda: uuid.UUID(int=5), lambda: collections.deque([1, 'x']),
        lambda: collections.OrderedDict(a=1), lambda: range(3), lambda: Inner(x=1), lambda: BadStr(), lambda: Ellipsis,
        lambda: NotImplemented, lambda: int, lambda: len, lambda: {1, 'x'}, lambda: frozenset([None]), lambda: Decimal('1.50'),
        lambda: Decimal('1E+400'),
    ][i]()


N_HOSTILE = 30


def atom(V, name, allow_sym_str=False, sym_int=True):
    k = V.pick(name + '_k', ['int', 'bool', 'none', 'float', 'num', 'struct', 'time', 'bytes', 'obj'] + (['str'] if allow_sym_str else []))
    if k == 'int':
        if sym_int and V.bool(name + '_sym'):
            return V.int(name, -1000, 1000)
        return V.pick(name + '_i', INTS)
    if k == 'bool':
        return V.bool(name + '_b')
    if k == 'none':
        return None
    if k == 'float':
        return V.pick(name + '_f', FLOATS)
    if k == 'num':
        return V.pick(name + '_s', V_NUM)
    if k == 'struct':
        return V.pick(name + '_s', V_STRUCT)
    if k == 'time':
        return V.pick(name + '_s', V_TIME)
    if k == 'bytes':
        return V.pick(name + '_y', BYTES)
    if k == 'str':
        return V.str(name + '_t', 2)
    return hostile(V.pick(name + '_o', list(range(N_HOSTILE))))


def small_atom(V, name, sym_int=True):
    """cheaper atom for container elements"""
    k = V.pick(name + '_k', ['int', 'bad', 'none', 'num', 'obj', 'list', 'dict'])
    if k == 'int':
        return V.int(name, -3, 3) if sym_int else V.pick(name + '_i', [0, 1, -3, 3, 2 * 10 ** 10])
    if k == 'bad':
        return 'x'
    if k == 'none':
        return None
    if k == 'num':
        return V.pick(name + '_s', ['5', '1.5', '', 'inf'])
    if k == 'list':
        return V.pick(name + '_l', [[], [1], ['x'], [1, 2], [[1]], [None]])
    if k == 'dict':
        return V.pick(name + '_d', [{}, {'x': 1}, {'x': 'q'}, {'a': 1}, {1: [2]}, {'x': 1, 'zz': 2}])
    return hostile(V.pick(name + '_o', [0, 3, 5, 8, 17, 20, 21]))


def value(V, sym_int=True):
    shape = V.pick('shape', ['atom', 'list', 'tuple', 'set', 'dict', 'deque', 'iter'])
    if shape == 'atom':
        return atom(V, 'x', allow_sym_str=sym_int, sym_int=sym_int)
    n = V.pick('n', [0, 1, 2, 3])
    if shape == 'dict':
        d = {}
        for i in range(min(n, 2)):
            k = V.pick('key%d' % i, ['x', 'a', 'inner', '', 1, None, (1, 2), 'b', 'c', 'd'])
            d[k] = small_atom(V, 'v%d' % i, sym_int)
        return d
    xs = []
    for i in range(n):
        e = small_atom(V, 'e%d' % i, sym_int)
        xs.append(e)
    if shape == 'list':
        return xs
    if shape == 'tuple':
        return tuple(xs)
    if shape == 'deque':
        return collections.deque(xs)
    if shape == 'iter':
        return iter(xs)
    try:
        return set(xs)
    except TypeError:
        return xs


