"""E1 -- path-exhaustive symbolic execution of harnesses over the real utype code.

Built directly on CrossHair 0.0.110 primitives (StateSpace / RootNode / Patched / COMPOSITE_TRACER).
A harness is a function ``h(V)``; every input it uses is obtained from the value API ``V``:

    V.int(name, lo, hi)      solver integer (unbounded when lo/hi are None)
    V.bool(name)             solver fork, yields a concrete bool
    V.pick(name, options)    solver-chosen element of a finite list (explicit if-chain)
    V.str(name, maxlen, ..)  string of solver-chosen length with symbolic code points
    V.float(name)            CrossHair float ({nan, +-inf} U reals; rounding is not modelled)
    V.cover(mark)            coverage mark (vacuity guard)
    V.fail(sig, detail)      the property is violated on this path

Two back ends implement it: ``SymV`` (values are CrossHair proxies; every branch on them is decided
by z3) and ``ConcV`` (values come from a recorded witness; used for witness validation, replay of
counterexamples and translator validation on pristine code without CrossHair).
"""
import json
import os
import sys
import time
import traceback


class PropFail(BaseException):
    """Raised by V.fail(); BaseException so that library code under test cannot swallow it."""

    def __init__(self, sig, detail=''):
        BaseException.__init__(self, sig, detail)
        self.sig = sig
        self.detail = detail


class ReplayMismatch(Exception):
    pass


class Hang(BaseException):
    pass


def enc(v):
    if isinstance(v, float):
        return {'$f': repr(v)}
    if isinstance(v, (list, tuple)):
        return {'$l': [enc(x) for x in v]}
    return v


def dec(v):
    if isinstance(v, dict):
        if '$f' in v:
            return float(v['$f'])
        if '$l' in v:
            return [dec(x) for x in v['$l']]
    return v


class BaseV:
    symbolic = False

    def __init__(self, tier):
        self.tier = tier
        self.thorough = tier == 'thorough'
        self.marks = set()

    def T(self, quick, thorough):
        """tier-dependent bound"""
        return thorough if self.thorough else quick

    def cover(self, mark):
        self.marks.add(mark)

    def fail(self, sig, detail=''):
        raise PropFail(sig, detail)

    def check(self, cond, sig, detail=''):
        if not cond:
            raise PropFail(sig, detail)   # a callable detail is evaluated after the path is detached


class ConcV(BaseV):
    """concrete back end: values are read from a witness"""

    def __init__(self, witness, tier):
        BaseV.__init__(self, tier)
        self.w = witness
        self.used = set()

    def _get(self, name):
        if name not in self.w:
            raise ReplayMismatch('witness has no value for %r' % (name,))
        if name in self.used:
            raise ReplayMismatch('duplicate name %r' % (name,))
        self.used.add(name)
        return dec(self.w[name])

    def int(self, name, lo=None, hi=None):
        v = self._get(name)
        if type(v) is not int or (lo is not None and v < lo) or (hi is not None and v > hi):
            raise ReplayMismatch('bad int for %r: %r' % (name, v))
        return v

    def bool(self, name):
        v = self._get(name)
        if type(v) is not bool:
            raise ReplayMismatch('bad bool for %r: %r' % (name, v))
        return v

    def pick(self, name, options):
        i = self._get(name)
        if type(i) is not int or not 0 <= i < len(options):
            raise ReplayMismatch('bad index for %r: %r' % (name, i))
        return options[i]

    def str(self, name, maxlen=3, lo=32, hi=126, minlen=0):
        v = self._get(name)
        if type(v) is not str or not (minlen <= len(v) <= maxlen) or any(not lo <= ord(c) <= hi for c in v):
            raise ReplayMismatch('bad str for %r: %r' % (name, v))
        return v

    def float(self, name):
        v = self._get(name)
        if type(v) is not float:
            raise ReplayMismatch('bad float for %r: %r' % (name, v))
        return v

    def concrete(self, name, x):
        return x

    def notrace(self):
        import contextlib
        return contextlib.nullcontext()


class SymV(BaseV):
    """symbolic back end (only usable inside vt.sx.explore)"""
    symbolic = True

    def __init__(self, space, tier):
        BaseV.__init__(self, tier)
        self.space = space
        self.rec = []          # (name, value) in creation order; value concrete or CrossHair proxy
        self.names = set()

    def _name(self, name):
        if name in self.names:
            raise RuntimeError('duplicate symbolic name %r' % (name,))
        self.names.add(name)

    def int(self, name, lo=None, hi=None):
        from crosshair.libimpl.builtinslib import SymbolicBoundedInt
        from crosshair.tracers import NoTracing
        self._name(name)
        with NoTracing():
            v = SymbolicBoundedInt(name + self.space.uniq(), int, lo, hi)
            self.rec.append((name, v))
        return v

    def _fork(self, label):
        from crosshair.libimpl.builtinslib import SymbolicBool
        from crosshair.tracers import NoTracing
        with NoTracing():
            b = SymbolicBool(label + self.space.uniq(), bool)
        return True if b else False

    def bool(self, name):
        self._name(name)
        r = self._fork(name)
        self.rec.append((name, r))
        return r

    def pick(self, name, options):
        self._name(name)
        n = len(options)
        i = 0
        # balanced binary choice keeps the decision depth logarithmic
        lo, hi = 0, n - 1
        while lo < hi:
            mid = (lo + hi) // 2
            if self._fork('%s_le%d' % (name, mid)):
                hi = mid
            else:
                lo = mid + 1
        i = lo
        self.rec.append((name, i))
        return options[i]

    def str(self, name, maxlen=3, lo=32, hi=126, minlen=0):
        from crosshair.libimpl.builtinslib import SymbolicBoundedInt, LazyIntSymbolicStr
        from crosshair.tracers import NoTracing
        self._name(name)
        n = minlen
        while n < maxlen and not self._fork('%s_len%d' % (name, n)):
            n += 1
        with NoTracing():
            cps = [SymbolicBoundedInt('%s_c%d%s' % (name, i, self.space.uniq()), int, lo, hi) for i in range(n)]
            v = LazyIntSymbolicStr(cps) if n else ''
            self.rec.append((name, v))
        return v

    def float(self, name):
        from crosshair.core import proxy_for_type
        from crosshair.tracers import NoTracing
        self._name(name)
        with NoTracing():
            v = proxy_for_type(float, name + self.space.uniq())
            self.rec.append((name, v))
        return v

    def concrete(self, name, x):
        """ask the solver for one model value of x under the current path condition"""
        from crosshair.core import realize
        return realize(x)

    def notrace(self):
        """run set-up code (class creation ...) without symbolic tracing; symbolic values may be stored by that code
        but must not be branched on"""
        from crosshair.tracers import NoTracing
        return NoTracing()

    def witness(self):
        from crosshair.core import deep_realize
        out = {}
        for name, v in self.rec:
            out[name] = enc(deep_realize(v))
        return out


# ------------------------------------------------------------------------------------------------
# engine set-up (symbolic side only)

SOLVER = {'calls': 0, 'seconds': 0.0}
_installed = False


def install_engine():
    """import CrossHair, register patches/stubs. Must run before utype is imported (fmtstub)."""
    global _installed
    if _installed:
        return
    _installed = True
    from vt import fmtstub
    fmtstub.install()
    import warnings
    warnings.simplefilter('ignore')
    warnings.warn = lambda *a, **k: None
    import crosshair.core_and_libs  # noqa: F401  (loads libimpl registrations)
    import crosshair.core as cc
    import crosshair.statespace as ss
    from crosshair.core_and_libs import _make_registrations
    from crosshair.libimpl.builtinslib import SymbolicInt, SymbolicBool, LazyIntSymbolicStr, SymbolicFloat
    from crosshair.tracers import NoTracing
    if not cc._PATCH_REGISTRATIONS:
        _make_registrations()
    _orig_callable = callable

    def _callable(x):
        with NoTracing():
            if isinstance(x, (SymbolicInt, SymbolicBool, LazyIntSymbolicStr, SymbolicFloat)):
                return False
        return _orig_callable(x)

    cc._PATCH_REGISTRATIONS[callable] = _callable

    _orig_sat = ss.solver_is_sat

    def _timed_sat(solver, *exprs):
        t = time.perf_counter()
        try:
            return _orig_sat(solver, *exprs)
        finally:
            SOLVER['calls'] += 1
            SOLVER['seconds'] += time.perf_counter() - t

    ss.solver_is_sat = _timed_sat


def explore(harness, tier, budget_s, per_path_s, journal, seed=0, max_paths=1000000, stop_on_fail=False):
    """run `harness(V)` over its whole path tree; one JSON line per path is written to `journal`."""
    import random
    from crosshair.core import Patched
    from crosshair.condition_parser import condition_parser
    from crosshair.options import AnalysisKind
    from crosshair.statespace import CallAnalysis, RootNode, StateSpace, StateSpaceContext, VerificationStatus
    from crosshair.tracers import COMPOSITE_TRACER, NoTracing, ResumedTracing
    from crosshair.util import (IgnoreAttempt, UnexploredPath, CrosshairUnsupported, CrossHairInternal,
                                NotDeterministic)

    import signal

    def _on_alarm(signum, frame):
        raise Hang()

    signal.signal(signal.SIGALRM, _on_alarm)
    hang_s = max(20.0, per_path_s * 2)
    root = RootNode()
    if seed:
        root._random = random.Random(seed)
    st = dict(paths=0, ok=0, fail=0, unknown=0, unknown_reasons={}, exhausted=False, decisions=0, marks=[])
    marks = set()
    t0 = time.process_time()
    w0 = time.time()
    with condition_parser([AnalysisKind.PEP316]), Patched(), COMPOSITE_TRACER, NoTracing():
        while st['paths'] < max_paths:
            now = time.process_time()
            if now - t0 > budget_s or time.time() - w0 > budget_s * 3.0:
                break
            space = StateSpace(execution_deadline=now + per_path_s, model_check_timeout=per_path_s / 2,
                               search_root=root)
            st['paths'] += 1
            entry = {'i': st['paths']}
            status = VerificationStatus.CONFIRMED
            with StateSpaceContext(space):
                V = SymV(space, tier)
                handling = None
                try:
                    try:
                        signal.setitimer(signal.ITIMER_REAL, hang_s)
                        try:
                            with ResumedTracing():
                                harness(V)
                        finally:
                            signal.setitimer(signal.ITIMER_REAL, 0)
                        entry['v'] = 'ok'
                    except Hang:
                        # the code under test did not come back (no solver interaction, so CrossHair's own path
                        # deadline never fired): keep the witness, the concrete replay decides whether it is a hang
                        entry['v'] = 'unknown'
                        entry['why'] = 'hang_suspect'
                    except PropFail as f:
                        entry['v'] = 'fail'
                        entry['sig'] = str(f.sig)
                        entry['detail'] = f.detail   # realised below
                    except (IgnoreAttempt, UnexploredPath, CrosshairUnsupported, CrossHairInternal,
                            NotDeterministic):
                        raise
                    except Exception as e:   # the harness itself let something through
                        entry['v'] = 'unknown'
                        entry['why'] = 'harness_exception:' + type(e).__name__
                        entry['tb'] = ''.join(traceback.format_exception(e))[-1500:]
                    if space.status_cap is not None and entry['v'] == 'ok':
                        entry['approx'] = 'real_model_float'
                except IgnoreAttempt as e:
                    entry['v'] = 'unknown'
                    entry['why'] = 'ignored:' + str(e)[:60]
                    status = None
                except (UnexploredPath, CrosshairUnsupported, CrossHairInternal, NotDeterministic) as e:
                    entry['v'] = 'unknown'
                    entry['why'] = type(e).__name__ + (':' + str(e)[:60] if str(e) else '')
                    status = VerificationStatus.UNKNOWN
                    handling = e
                # realise the witness without constraining the search
                try:
                    with ResumedTracing():
                        space.detach_path(handling)
                    entry['w'] = V.witness()
                    if 'detail' in entry:
                        from crosshair.core import deep_realize
                        d = entry['detail']
                        entry['detail'] = str(deep_realize(d() if callable(d) else d))[:600]
                except BaseException as e:  # noqa  (witness is best effort on aborted paths)
                    if isinstance(e, (KeyboardInterrupt, SystemExit)):
                        raise
                    entry.setdefault('w', None)
                    entry['wit_err'] = type(e).__name__
                    if entry['v'] != 'unknown':
                        entry['v'] = 'unknown'
                        entry['why'] = 'witness_realisation:' + type(e).__name__
                        entry.pop('detail', None)
                entry['marks'] = sorted(V.marks)
                if entry['v'] == 'ok':
                    marks |= V.marks
                st['decisions'] += len(space.choices_made)
                _, exhausted = space.bubble_status(CallAnalysis(status))
            if entry['v'] == 'ok':
                st['ok'] += 1
            elif entry['v'] == 'fail':
                st['fail'] += 1
            else:
                st['unknown'] += 1
                k = entry.get('why', '?')
                st['unknown_reasons'][k] = st['unknown_reasons'].get(k, 0) + 1
            journal.write(json.dumps(entry) + '\n')
            journal.flush()
            if exhausted:
                st['exhausted'] = True
                break
            if stop_on_fail and entry['v'] == 'fail':
                break
    st['marks'] = sorted(marks)
    st['cpu_s'] = round(time.process_time() - t0, 2)
    st['solver_calls'] = SOLVER['calls']
    st['solver_s'] = round(SOLVER['seconds'], 2)
    return st
