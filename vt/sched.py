"""E3 -- thread schedules as solver variables.

Real `threading.Thread`s execute real utype calls; each worker installs a trace function and, at every `line` event inside a
*watched* code object, parks on its own semaphore and wakes the controller.  The controller (the harness thread, running under
E1) decides "continue / switch" with V.bool(...) -- so the schedule is a vector of solver variables, the E1 search tree is the
schedule tree, and tree exhaustion means every schedule within the bound (threads, preemptions, watched functions) was run.
Exactly one worker runs at any time, so a run is deterministic given the decision vector and every counterexample is a
replayable witness.  A worker that does not report within BLOCK_S seconds while it holds the turn is treated as blocked
(e.g. on a lock held by a parked thread) and the turn is handed to another runnable thread; when no other thread could run, the
verdict 'deadlock' is given only after DEADLOCK_S seconds of silence.
"""
import contextlib
import queue
import sys
import threading

BLOCK_S = 0.15
DEADLOCK_S = 20.0


class Worker:
    def __init__(self, tid, fn, events, watched):
        self.tid, self.fn, self.events, self.watched = tid, fn, events, watched
        self.go = threading.Semaphore(0)
        self.result = None
        self.done = False
        self.lines = 0
        self.thread = threading.Thread(target=self._run, name='vt-worker-%d' % tid, daemon=True)

    def _local(self, frame, event, arg):
        if event == 'line':
            self.lines += 1
            self.events.put(('line', self.tid, frame.f_code.co_name, frame.f_lineno))
            self.go.acquire()
        return self._local

    def _global(self, frame, event, arg):
        if event == 'call' and frame.f_code in self.watched:
            return self._local
        return None

    def _run(self):
        self.go.acquire()
        sys.settrace(self._global)
        try:
            try:
                self.result = ('ok', self.fn())
            except Exception as e:  # noqa
                self.result = ('exc', type(e).__name__, str(e)[:120])
        finally:
            sys.settrace(None)
            self.done = True
            self.events.put(('done', self.tid, None, None))


def run_schedule(V, fns, watched, max_preemptions, max_points=400):
    """run the thunks in `fns` concurrently under a solver-chosen schedule; returns (results, trace)"""
    # everything but the schedule decisions is concrete: thread plumbing runs outside CrossHair's tracing
    quiet = getattr(V, 'notrace', None) or contextlib.nullcontext
    events = queue.Queue()
    with quiet():
        workers = [Worker(i, fn, events, watched) for i, fn in enumerate(fns)]
        for w in workers:
            w.thread.start()
    trace = []
    # which thread starts is a free choice of the schedule (not a preemption)
    current = V.pick('start', list(range(len(workers)))) if len(workers) > 1 else 0
    trace.append(('start', current))
    preempt = 0
    point = 0
    blocked = set()
    workers[current].go.release()
    while not all(w.done for w in workers):
        # a silent turn-holder is "blocked" only if some other thread could run instead; when it is the last runnable thread the
        # verdict would be "deadlock", so it gets a long grace period first (a slow line under machine load is not a deadlock)
        alternatives = [w.tid for w in workers if not w.done and w.tid != current and w.tid not in blocked]
        try:
            with quiet():
                ev = events.get(timeout=BLOCK_S if alternatives else DEADLOCK_S)
        except queue.Empty:
            # the thread holding the turn is blocked (lock held by a parked thread): hand the turn on
            blocked.add(current)
            others = [w.tid for w in workers if not w.done and w.tid not in blocked]
            if not others:
                trace.append(('deadlock', current))
                break
            current = others[0]
            trace.append(('blocked->', current))
            workers[current].go.release()
            continue
        kind, tid, fn_name, lineno = ev
        if kind == 'done':
            blocked.discard(tid)
            runnable = [w.tid for w in workers if not w.done]
            if not runnable:
                break
            if tid == current or current in blocked:
                # forced hand-over (not a preemption)
                nxt = [t for t in runnable if t not in blocked] or runnable
                current = nxt[0]
                blocked.discard(current)
                trace.append(('finished->', current))
                workers[current].go.release()
            continue
        # a worker reached a watched line while holding the turn
        if tid != current:
            # a previously blocked thread got unblocked and reported: park it (it keeps waiting on its semaphore)
            blocked.discard(tid)
            continue
        point += 1
        others = [w.tid for w in workers if not w.done and w.tid != current]
        switch = False
        if others and preempt < max_preemptions and point <= max_points:
            switch = V.bool('sw%d' % point)
        if switch:
            preempt += 1
            target = others[0] if len(others) == 1 else V.pick('to%d' % point, others)
            trace.append(('preempt', current, fn_name, lineno, '->', target))
            current = target
        workers[current].go.release()
    with quiet():
        for w in workers:
            w.thread.join(timeout=BLOCK_S)
    return [w.result for w in workers], trace


def code_objects(*funcs):
    out = set()
    for f in funcs:
        f = getattr(f, '__func__', f)
        code = getattr(f, '__code__', None)
        if code is not None:
            out.add(code)
    return out
