"""mini JSON-Schema (2020-12) validator for the keyword set utype emits / accepts -- pure Python, traceable by CrossHair.
Every witness is cross-checked against the `jsonschema` library in the concrete replay (see agree())."""
import re


def jtype(v):
    if v is None:
        return 'null'
    if isinstance(v, bool):
        return 'boolean'
    if isinstance(v, int):
        return 'integer'
    if isinstance(v, float):
        return 'number'
    if isinstance(v, str):
        return 'string'
    if isinstance(v, list):
        return 'array'
    if isinstance(v, dict):
        return 'object'
    return 'other'


def type_ok(t, v):
    jt = jtype(v)
    if t == 'number':
        return jt in ('integer', 'number')
    if t == 'integer':
        return jt == 'integer' or (jt == 'number' and v == v and v not in (float('inf'), float('-inf')) and v == int(v))
    return jt == t


def jeq(a, b):
    if isinstance(a, bool) != isinstance(b, bool):
        return False
    if isinstance(a, (int, float)) and isinstance(b, (int, float)):
        return a == b
    if type(a) is not type(b):
        return False
    if isinstance(a, list):
        return len(a) == len(b) and all(jeq(x, y) for x, y in zip(a, b))
    if isinstance(a, dict):
        return set(a) == set(b) and all(jeq(a[k], b[k]) for k in a)
    return a == b


def valid(schema, v, root=None):
    if schema is True or schema == {}:
        return True
    if schema is False:
        return False
    root = root if root is not None else schema
    if '$ref' in schema:
        ref = schema['$ref']
        node = root
        for part in ref.lstrip('#/').split('/'):
            node = node[part]
        if not valid(node, v, root):
            return False
    t = schema.get('type')
    if t is not None:
        ts = t if isinstance(t, list) else [t]
        if not any(type_ok(x, v) for x in ts):
            return False
    if 'enum' in schema and not any(jeq(v, e) for e in schema['enum']):
        return False
    if 'const' in schema and not jeq(v, schema['const']):
        return False
    if isinstance(v, (int, float)) and not isinstance(v, bool):
        if 'minimum' in schema and not v >= schema['minimum']:
            return False
        if 'maximum' in schema and not v <= schema['maximum']:
            return False
        if 'exclusiveMinimum' in schema and not v > schema['exclusiveMinimum']:
            return False
        if 'exclusiveMaximum' in schema and not v < schema['exclusiveMaximum']:
            return False
        if 'multipleOf' in schema:
            m = schema['multipleOf']
            if isinstance(v, int) and isinstance(m, int):
                if v % m != 0:
                    return False
            elif (v / m) != int(v / m):
                return False
    if isinstance(v, str):
        if 'minLength' in schema and len(v) < schema['minLength']:
            return False
        if 'maxLength' in schema and len(v) > schema['maxLength']:
            return False
        if 'pattern' in schema and not re.search(schema['pattern'], v):
            return False
    if isinstance(v, list):
        if 'minItems' in schema and len(v) < schema['minItems']:
            return False
        if 'maxItems' in schema and len(v) > schema['maxItems']:
            return False
        if schema.get('uniqueItems'):
            for i in range(len(v)):
                for j in range(i):
                    if jeq(v[i], v[j]):
                        return False
        prefix = schema.get('prefixItems', [])
        for i, s in enumerate(prefix):
            if i < len(v) and not valid(s, v[i], root):
                return False
        if 'items' in schema:
            for x in v[len(prefix):]:
                if not valid(schema['items'], x, root):
                    return False
        if 'contains' in schema:
            n = sum(1 for x in v if valid(schema['contains'], x, root))
            lo = schema.get('minContains', 1)
            if n < lo:
                return False
            if 'maxContains' in schema and n > schema['maxContains']:
                return False
    if isinstance(v, dict):
        if 'minProperties' in schema and len(v) < schema['minProperties']:
            return False
        if 'maxProperties' in schema and len(v) > schema['maxProperties']:
            return False
        props = schema.get('properties', {})
        pats = schema.get('patternProperties', {})
        for k in schema.get('required', []):
            if k not in v:
                return False
        for k, deps in schema.get('dependentRequired', {}).items():
            if k in v and not all(d in v for d in deps):
                return False
        for k, x in v.items():
            matched = False
            if k in props:
                matched = True
                if not valid(props[k], x, root):
                    return False
            for pat, s in pats.items():
                if re.search(pat, k):
                    matched = True
                    if not valid(s, x, root):
                        return False
            if not matched and 'additionalProperties' in schema:
                if not valid(schema['additionalProperties'], x, root):
                    return False
    if 'anyOf' in schema and not any(valid(s, v, root) for s in schema['anyOf']):
        return False
    if 'oneOf' in schema and sum(1 for s in schema['oneOf'] if valid(s, v, root)) != 1:
        return False
    if 'allOf' in schema and not all(valid(s, v, root) for s in schema['allOf']):
        return False
    if 'not' in schema and valid(schema['not'], v, root):
        return False
    return True


def library_valid(schema, v):
    import jsonschema
    return jsonschema.Draft202012Validator(schema).is_valid(v)


def schema_is_valid(schema):
    """the document itself is a valid draft 2020-12 schema (None if ok, else message)"""
    import jsonschema
    try:
        jsonschema.Draft202012Validator.check_schema(schema)
        return None
    except jsonschema.SchemaError as e:
        return str(e).splitlines()[0][:200]
