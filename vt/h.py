"""helpers shared by harnesses (pure Python, traceable by CrossHair, usable concretely)"""
from utype import exc


def attempt(fn, *a, **k):
    """('ok', value) | ('err', ParseError) | ('crash', other Exception).  BaseExceptions propagate."""
    try:
        return ('ok', fn(*a, **k))
    except exc.ParseError as e:
        return ('err', e)
    except Exception as e:  # noqa
        return ('crash', e)


def kind(r):
    return r[0] if r[0] != 'crash' else 'crash:' + type(r[1]).__name__


def isinst(T, x):
    """isinstance(x, T) for LogicalType T -- explicit call: CrossHair's isinstance patch bypasses
    metaclass __instancecheck__ for symbolic x"""
    return type(T).__instancecheck__(T, x)


def declare(fn, *a, **k):
    """build a type; returns None if the library refuses the declaration with ConfigError"""
    try:
        return fn(*a, **k)
    except exc.ConfigError:
        return None
