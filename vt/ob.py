"""obligation registry: one obligation = one harness = one worker process"""
import importlib

REG = {}


class Ob:
    def __init__(self, id, fn, marks, budget, per_path, bounds, exhaustive, thorough_only, out):
        self.id, self.fn, self.marks = id, fn, tuple(marks)
        self.budget, self.per_path = budget, per_path
        self.bounds, self.exhaustive, self.thorough_only, self.out = bounds, exhaustive, thorough_only, out

    def budget_for(self, tier):
        return self.budget[1 if tier == 'thorough' else 0]

    def exhaustive_for(self, tier):
        e = self.exhaustive
        return e[1 if tier == 'thorough' else 0] if isinstance(e, tuple) else e

    def per_path_for(self, tier):
        return self.per_path[1 if tier == 'thorough' else 0]


def ob(id, marks=(), budget=(40, 150), per_path=(10, 20), bounds='', exhaustive=True, thorough_only=False,
       out=''):
    """register harness `fn(V)`.
    budget/per_path: CPU seconds (quick, thorough). bounds/out: stated bounds and what is outside the claim.
    exhaustive=False marks an obligation whose tree is not expected to close (solver-driven region
    coverage only; never counted as 'proved'); a pair (quick, thorough) states it per tier (e.g. (True, False): the quick
    bounds are exhausted, the wider thorough bounds are explored within the budget)."""
    def deco(fn):
        if id in REG:
            raise RuntimeError('duplicate obligation ' + id)
        REG[id] = Ob(id, fn, marks, budget, per_path, bounds, exhaustive, thorough_only, out)
        return fn
    return deco


def register(id, fn, **kw):
    ob(id, **kw)(fn)


def load(prop):
    """import vt.props.<prop> and return (module, {id: Ob}) for it"""
    REG.clear()
    mod = importlib.import_module('vt.props.' + prop.lower())
    return mod, dict(REG)
