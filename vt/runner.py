"""check runner:  ./check <PROP> [--tier quick|thorough] [--only GLOB] [--jobs N] [--replay FILE]

Schedules one symbolic worker process per obligation (vt.worker, CrossHair + stubs), validates every
journalled witness on the pristine library in a second process (vt.replay), classifies, matches
confirmed violations against known_findings.json, writes evidence/<PROP>.json and prints
VIOLATION / KNOWN-FINDING lines.  Exit 1 only for a reproducing violation that is not listed.
"""
import argparse
import concurrent.futures as cf
import fnmatch
import hashlib
import json
import os
import re
import shutil
import subprocess
import sys
import tempfile
import time

ROOT = os.path.dirname(os.path.dirname(os.path.abspath(__file__)))
PY = os.path.join(ROOT, '.venv', 'bin', 'python')
REPO = os.environ.get('UTYPE_REPO', '/repo')

STUBS = [
    'diagnostic f-strings inside raise / *.warn / collect_waring / *Error(...) and all of utils/exceptions.py '
    'are replaced by a constant in the symbolic run only (import hook vt/fmtstub.py recompiling /repo sources); '
    'witness validation and replays run the unmodified code',
    'warnings.warn is a no-op in the symbolic run',
    'callable(x) on a symbolic int/bool/str/float returns False without realising it',
]


def env():
    e = dict(os.environ)
    e['PYTHONDONTWRITEBYTECODE'] = '1'
    e['PYTHONPATH'] = ROOT + os.pathsep + REPO
    e['UTYPE_REPO'] = REPO
    e['UTYPE_VERIF'] = '1'
    e['PYTHONHASHSEED'] = '0'
    return e


def safe(s):
    return re.sub(r'[^A-Za-z0-9_.-]+', '_', s)


def read_jsonl(path):
    out = []
    if os.path.exists(path):
        for line in open(path):
            line = line.strip()
            if line:
                try:
                    out.append(json.loads(line))
                except ValueError:
                    pass
    return out


def run_replay(prop, obid, tier, journal, out, n_wit):
    """replay all witnesses; a hard hang (C level, not interruptible) kills the process and resumes"""
    start = 0
    hard_hangs = []
    for _ in range(20):
        try:
            subprocess.run([PY, '-m', 'vt.replay', prop, obid, tier, journal, out, str(start)], cwd=ROOT, env=env(),
                           timeout=120 + 2.0 * n_wit, stdout=subprocess.PIPE, stderr=subprocess.PIPE)
        except subprocess.TimeoutExpired:
            pass
        recs = read_jsonl(out)
        if recs and recs[-1].get('v') == 'done':
            break
        started = [r['i'] for r in recs if r.get('v') == 'started']
        finished = {r['i'] for r in recs if r.get('v') not in ('started', 'done')}
        pending = [i for i in started if i not in finished]
        if not pending:
            # crashed outside a witness
            break
        hard_hangs.append(pending[-1])
        start = pending[-1]
    res = {}
    functions = []
    err = None
    for r in read_jsonl(out):
        if r.get('v') == 'done':
            functions = r.get('functions', [])
        elif r.get('v') != 'started':
            res[r['i']] = r
    for i in hard_hangs:
        res[i] = {'i': i, 'v': 'hang', 'sig': 'hang', 'marks': []}
    return res, functions


def run_obligation(prop, o, tier, seed, scratch):
    t0 = time.time()
    base = os.path.join(scratch, safe(o.id))
    journal, summary, rout = base + '.journal', base + '.summary', base + '.replay'
    budget = o.budget_for(tier)
    aborted = None
    try:
        p = subprocess.run([PY, '-m', 'vt.worker', prop, o.id, tier, str(seed), journal, summary], cwd=ROOT,
                           env=env(), timeout=budget * 3.2 + 120, stdout=subprocess.PIPE, stderr=subprocess.PIPE)
        if p.returncode != 0:
            aborted = 'worker exit %d: %s' % (p.returncode, p.stderr.decode('utf8', 'replace')[-800:])
    except subprocess.TimeoutExpired:
        aborted = 'worker wall-clock watchdog'
    paths = read_jsonl(journal)
    if os.path.exists(summary):
        st = json.load(open(summary))
    else:
        st = dict(paths=len(paths), exhausted=False, decisions=0, marks=[], cpu_s=None, solver_calls=0,
                  solver_s=0.0)
    n_wit = sum(1 for e in paths if e.get('w') is not None)
    rep, functions = run_replay(prop, o.id, tier, journal, rout, n_wit) if n_wit else ({}, [])

    viol, unknown, validated, ok_marks = [], {}, 0, set()
    err_samples = [{'where': 'symbolic', 'witness': e.get('w'), 'tb': e['tb']} for e in paths if e.get('tb')][:2]
    samples = []

    def unk(reason):
        unknown[reason] = unknown.get(reason, 0) + 1

    for e in paths:
        r = rep.get(e['i'])
        sv = e['v']
        if r is None:
            unk('no_replay:' + e.get('why', sv))
            continue
        cv = r['v']
        if cv in ('fail', 'hang'):
            viol.append({'sig': r.get('sig'), 'detail': r.get('detail', ''), 'witness': e['w'],
                         'symbolic_verdict': sv + (':' + e.get('sig', '') if sv == 'fail' else ''),
                         'path': e['i']})
            if sv == 'ok':
                unk('symbolic_ok_concrete_fail')
        elif cv == 'ok':
            if sv == 'ok':
                validated += 1
                ok_marks |= set(e.get('marks', ())) & set(r.get('marks', ()))
                if len(samples) < 3:
                    samples.append({'obligation': o.id, 'witness': e['w'], 'verdict': 'holds'})
            elif sv == 'fail':
                unk('engine_imprecision:symbolic_fail_not_reproduced:' + e.get('sig', ''))
            else:
                unk(e.get('why', 'unknown'))
        else:
            unk('replay_' + cv + ':' + r.get('why', ''))
            if len(err_samples) < 2:
                err_samples.append({'where': 'replay', 'witness': e['w'], 'tb': r.get('tb', r.get('why'))})
    missing_marks = [m for m in o.marks if m not in ok_marks]
    exhausted = bool(st.get('exhausted'))
    res = dict(id=o.id, paths=len(paths), validated=validated, unknown=unknown, exhausted=exhausted,
               decisions=st.get('decisions', 0), solver_calls=st.get('solver_calls', 0),
               solver_s=st.get('solver_s', 0.0), cpu_s=st.get('cpu_s'), wall_s=round(time.time() - t0, 1),
               marks_hit=sorted(ok_marks), marks_missing=missing_marks, violations=viol, aborted=aborted,
               bounds=o.bounds, outside=o.out, expected_exhaustive=o.exhaustive_for(tier), functions=functions,
               samples=samples, fstrings_stubbed=st.get('fstrings_stubbed'), error_samples=err_samples)
    if viol:
        res['verdict'] = 'VIOLATION'
    elif aborted or unknown or not paths:
        res['verdict'] = 'INCONCLUSIVE'
    elif missing_marks:
        res['verdict'] = 'VACUOUS'
    elif exhausted:
        res['verdict'] = 'PROVED-IN-BOUNDS'
    elif not o.exhaustive_for(tier):
        res['verdict'] = 'EXPLORED-NO-VIOLATION'
    else:
        res['verdict'] = 'INCONCLUSIVE'
        unknown['budget_ended_before_exhaustion'] = 1
    return res


def load_known():
    p = os.path.join(ROOT, 'known_findings.json')
    if not os.path.exists(p):
        return []
    return json.load(open(p)).get('findings', [])


def match_known(known, prop, obid, sig):
    for k in known:
        if k['property'] == prop and fnmatch.fnmatchcase(obid, k['obligation']) and \
                fnmatch.fnmatchcase(sig or '', k['signature']):
            return k
    return None


def do_replay(path):
    d = json.load(open(path))
    out = tempfile.mkdtemp(prefix='vt_replay_')
    try:
        j = os.path.join(out, 'j')
        with open(j, 'w') as f:
            f.write(json.dumps({'i': 1, 'v': 'fail', 'w': d['witness']}) + '\n')
        rep, _ = run_replay(d['property'], d['obligation'], d.get('tier', 'quick'), j, os.path.join(out, 'r'), 1)
        r = rep.get(1, {'v': 'no result'})
        print('replay %s %s -> %s %s %s' % (d['property'], d['obligation'], r['v'], r.get('sig', ''),
                                              r.get('detail', r.get('why', ''))))
        if r['v'] in ('fail', 'hang'):
            print('VIOLATION property=%s replay=%s' % (d['property'], path))
            return 1
        return 0
    finally:
        shutil.rmtree(out, ignore_errors=True)


def main():
    ap = argparse.ArgumentParser()
    ap.add_argument('prop')
    ap.add_argument('--tier', default=os.environ.get('VERIF_TIER', 'quick'))
    ap.add_argument('--only', default=None)
    ap.add_argument('--jobs', type=int, default=int(os.environ.get('VT_JOBS', '16')))
    ap.add_argument('--replay', default=None)
    ap.add_argument('--no-evidence', action='store_true')
    a = ap.parse_args()
    if a.replay:
        sys.exit(do_replay(a.replay))
    prop = a.prop.upper()
    tier = 'thorough' if a.tier == 'thorough' else 'quick'
    seed = int(os.environ.get('VERIF_SEED', '0') or 0)
    t0 = time.time()
    sys.path.insert(0, ROOT)
    sys.path.insert(1, REPO)
    os.environ['UTYPE_REPO'] = REPO
    import warnings
    warnings.simplefilter('ignore')
    from vt import ob
    mod, obs = ob.load(prop)
    sel = [o for o in obs.values() if (tier == 'thorough' or not o.thorough_only)
           and (a.only is None or fnmatch.fnmatchcase(o.id, a.only))]
    scratch = tempfile.mkdtemp(prefix='vt_%s_' % prop)
    results = []
    extra = None
    try:
        # longest budgets first
        sel.sort(key=lambda o: -o.budget_for(tier))
        with cf.ThreadPoolExecutor(max_workers=a.jobs) as ex:
            futs = [ex.submit(run_obligation, prop, o, tier, seed, scratch) for o in sel]
            for f in futs:
                results.append(f.result())
        if hasattr(mod, 'extra_checks'):
            extra = mod.extra_checks(tier, seed)
    finally:
        shutil.rmtree(scratch, ignore_errors=True)
    results.sort(key=lambda r: r['id'])

    known = load_known()
    rdir = os.path.join(ROOT, 'evidence', 'replays', prop)
    shutil.rmtree(rdir, ignore_errors=True)
    unlisted, listed = [], {}
    all_results = list(results) + (extra or {}).get('obligations', [])
    for r in all_results:
        seen = set()
        for v in r['violations']:
            k = match_known(known, prop, r['id'], v['sig'])
            key = (r['id'], v['sig'])
            if k is not None:
                listed.setdefault(k['id'], (k, []))[1].append(key)
                v['known_finding'] = k['id']
            if key in seen:
                continue
            seen.add(key)
            os.makedirs(rdir, exist_ok=True)
            h = hashlib.sha1(json.dumps([r['id'], v['sig']]).encode()).hexdigest()[:8]
            path = os.path.join(rdir, '%s-%s.json' % (safe(r['id'])[:60], h))
            with open(path, 'w') as f:
                json.dump({'property': prop, 'obligation': v.get('replay_obligation', r['id']), 'found_by': r['id'], 'tier': tier, 'sig': v['sig'],
                           'detail': v['detail'], 'witness': v['witness'], 'replay': v.get('replay')}, f, indent=1)
            v['replay_file'] = path
            if k is None:
                unlisted.append((r['id'], v, path))
        if r['verdict'] == 'VIOLATION' and all('known_finding' in v for v in r['violations']):
            r['verdict'] = 'KNOWN-FINDING'

    # ---- report
    for r in all_results:
        u = ' unknown=%s' % r['unknown'] if r['unknown'] else ''
        ab = ' ABORTED(%s)' % r['aborted'][:200] if r.get('aborted') else ''
        mm = ' missing_marks=%s' % r['marks_missing'] if r.get('marks_missing') else ''
        print('%-22s %-38s paths=%-5d validated=%-5d exhausted=%-5s solver=%d/%.1fs cpu=%s wall=%s%s%s%s' % (
            r['verdict'], r['id'], r['paths'], r['validated'], r['exhausted'], r['solver_calls'], r['solver_s'],
            r['cpu_s'], r['wall_s'], u, mm, ab))
        for es in r.get('error_samples', []):
            print('    harness error (%s) witness=%s\n      %s' % (es['where'], json.dumps(es['witness'])[:300],
                                                                   str(es['tb']).strip().replace('\n', '\n      ')[-900:]))
    for kid, (k, keys) in sorted(listed.items()):
        print('KNOWN-FINDING: property=%s %s [%s; %d witnesses in %s]' % (
            prop, k['what'], kid, len(keys), ','.join(sorted({x[0] for x in keys}))[:120]))
    for obid, v, path in unlisted:
        print('violation in %s sig=%s: %s' % (obid, v['sig'], (v['detail'] or '')[:400]))
        print('VIOLATION property=%s replay=%s' % (prop, path))

    n_ob = len(all_results)
    discharged = sum(1 for r in all_results if r['verdict'] == 'PROVED-IN-BOUNDS')
    wall = round(time.time() - t0, 1)
    if not a.no_evidence:
        functions = sorted({f for r in all_results for f in r.get('functions', [])})
        samples = [s for r in all_results for s in r.get('samples', [])[:1]][:12]
        for obid, v, path in unlisted[:3]:
            samples.append({'obligation': obid, 'verdict': 'VIOLATION', 'sig': v['sig'], 'witness': v['witness']})
        for kid, (k, keys) in list(listed.items())[:4]:
            samples.append({'known_finding': kid, 'what': k['what'], 'where': sorted({x[0] for x in keys})[:4]})
        if not samples:
            samples = [{'note': 'no path completed'}]
        ev = {
            'property_id': prop, 'tier': tier, 'seed': seed, 'level': 'model_checking', 'wall_s': wall,
            'violations': len(unlisted),
            'coverage': {
                'states': max(1, sum(r['paths'] for r in all_results)),
                'transitions': max(1, sum(r.get('decisions', 0) for r in all_results)),
                'traces_validated_against_impl': sum(r['validated'] for r in all_results),
                'samples': samples,
                'obligations': n_ob, 'discharged': discharged,
                'exhaustive': bool(n_ob) and discharged == n_ob,
                'explanation': 'bounded symbolic execution of the real utype code (CrossHair primitives + z3); '
                               'states = execution paths explored, transitions = solver-decided branch/realisation '
                               'nodes on those paths; an obligation is discharged only if its path tree was '
                               'exhausted, no path was UNKNOWN, every path witness replayed with the same verdict '
                               'on the unstubbed library, and all coverage marks were hit',
                'verdicts': {v: sum(1 for r in all_results if r['verdict'] == v)
                             for v in sorted({r['verdict'] for r in all_results})},
                'solver': {'engine': 'z3 (z3-solver wheel) via crosshair-tool 0.0.110 StateSpace',
                           'queries': sum(r['solver_calls'] for r in all_results),
                           'seconds': round(sum(r['solver_s'] for r in all_results), 1)},
                'functions_encoded': functions,
                'known_findings_reported': sorted(listed),
                'per_obligation': [
                    {k: r.get(k) for k in ('id', 'verdict', 'paths', 'validated', 'exhausted', 'decisions',
                                           'solver_calls', 'solver_s', 'cpu_s', 'wall_s', 'unknown', 'marks_hit',
                                           'marks_missing', 'bounds', 'outside', 'expected_exhaustive', 'aborted',
                                           'extra')}
                    | {'violation_sigs': sorted({str(v['sig']) for v in r['violations']})}
                    for r in all_results],
                'stubs': STUBS,
            },
            'assumptions': STUBS + [
                'CrossHair 0.0.110 proxy semantics and z3 are trusted for paths reported as holding; every path '
                'witness is additionally re-executed concretely on the unmodified library',
                'claims are limited to the per-obligation bounds listed under coverage.per_obligation[*].bounds',
            ] + list(getattr(mod, 'ASSUMPTIONS', [])),
        }
        if extra and extra.get('coverage'):
            ev['coverage'].update(extra['coverage'])
        os.makedirs(os.path.join(ROOT, 'evidence'), exist_ok=True)
        with open(os.path.join(ROOT, 'evidence', prop + '.json'), 'w') as f:
            json.dump(ev, f, indent=1, sort_keys=True)
    print('%s tier=%s obligations=%d discharged=%d unlisted_violations=%d known=%d wall=%.1fs' % (
        prop, tier, n_ob, discharged, len(unlisted), len(listed), wall))
    sys.exit(1 if unlisted else 0)


if __name__ == '__main__':
    main()
