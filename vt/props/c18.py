"""C18 -- the depth limit is exact and parse cost stays bounded"""
from typing import Dict, List, Optional, Tuple, Union

from utype import Field, Options, Schema, exc, register_transformer
from vt.ob import ob
from vt.h import attempt

PROP = 'C18'
ASSUMPTIONS = [
    'depth of a value = number of nested data-class instances on the longest root-to-leaf chain (the outermost '
    'instance has depth 1); max_depth is given in the class options of every class of the chain (runtime options do '
    'not propagate into nested data classes by design)',
    'cost obligation: work = number of calls of a counting leaf converter registered by the harness; the polynomial '
    'bound asserted is 3*(d+1)*leaves (every leaf value converted at most once per union stage per enclosing level); '
    'depths above the stated bound are extrapolated, not proved',
]

KINDS = ['field', 'optional', 'list', 'tuple', 'dict', 'union', 'dictlist']


def annotation(kind, T):
    return {'field': T, 'optional': Optional[T], 'list': List[T], 'tuple': Tuple[T, ...], 'dict': Dict[str, T],
            'union': Union[int, T], 'dictlist': Dict[str, List[T]]}[kind]


def chain(m, D, kind, extra=None):
    """D data classes N1 -> N2 -> ... -> ND (no forward references), each limited to max_depth=m"""
    prev = None
    for level in range(D, 0, -1):
        ns = {'__options__': Options(max_depth=m, **(extra or {})), '__annotations__': {'v': int}, 'v': 0,
              '__module__': __name__, '__qualname__': 'N%d' % level}
        if prev is not None:
            ns['__annotations__']['c'] = annotation(kind, prev)
            ns['c'] = Field(required=False)
        prev = type(Schema)('N%d' % level, (Schema,), ns)
    return prev


def wrap(V, kind, inner, level):
    """place `inner` (a dict for the next data class) at a solver-chosen position of the route kind"""
    filler = {'v': 7}
    if kind in ('field', 'optional', 'union'):
        return inner
    if kind in ('list', 'tuple'):
        top = 2 if V.thorough and level == 1 else 1
        idx = V.int('idx%d' % level, 0, top)
        n = 0
        while n < top and not (idx == n):
            n += 1
        seq = [filler] * n + [inner] + ([filler] if V.thorough and level == 1 and V.bool('tail%d' % level) else [])
        return seq if kind == 'list' else tuple(seq)
    key = V.str('key%d' % level, 1, 97, 98)       # '', 'a' or 'b': symbolic, so `if route:` is a solver decision
    if kind == 'dict':
        return {key: inner}
    idx = V.int('idx%d' % level, 0, 1)
    return {key: ([inner] if idx == 0 else [filler, inner])}


def build(V, kind, d):
    # the innermost node may provide no declared field at all (a context that parses no field must still be counted)
    # (an empty dict under Union[int, N] is a valid *int* (0) in lenient mode, so it is not used there)
    x = V.pick('leaf', [{'v': 1}, {'unknown': 1}] if kind == 'union' else [{'v': 1}, {}, {'unknown': 1}])
    for level in range(d - 1, 0, -1):
        x = {'v': level, 'c': wrap(V, kind, x, level)}
    return x


def _exact(V, kind):
    D = V.T(3 if kind == 'dictlist' else 4, 5)
    m = V.int('m', 1, D + 1)
    d = V.int('d', 1, D)
    depth = 1
    while depth < D and not (d == depth):
        depth += 1
    # the limit holds whatever else the options say about error handling
    extra = V.pick('options', [{}, {'collect_errors': True}, {'collect_errors': True, 'ignore_constraints': True}])
    with V.notrace():
        cls = chain(m, D, kind, extra)
    x = build(V, kind, depth)
    r = attempt(cls, **x)
    V.check(r[0] != 'crash', 'depth:crash', lambda: '%r -> %r' % (x, r[1]))
    ok = r[0] == 'ok'
    expect = True if depth <= m else False
    V.check(ok == expect, 'depth:' + ('rejected-within-limit' if expect else 'accepted-beyond-limit'),
            lambda: 'kind=%s depth=%d max_depth=%d input=%r accepted=%r%s' % (
                kind, depth, m, x, ok, '' if ok else ' error=%s' % type(r[1]).__name__))
    if not ok and not expect:
        V.check(_has_depth_error(r[1]), 'depth:wrong-error', lambda: repr(r[1]))
    V.cover('accept' if ok else 'reject')


def _has_depth_error(e):
    seen = 0
    while e is not None and seen < 50:
        seen += 1
        if isinstance(e, exc.DepthExceedError):
            return True
        if isinstance(e, exc.CollectedParseError):
            return any(_has_depth_error(x) for x in e.errors)
        e = getattr(e, 'origin_exc', None) or e.__cause__
    return False


for _k in KINDS:
    ob('exact/' + _k, marks=['accept', 'reject'], budget=(200, 600), per_path=(15, 30),
       bounds='route kind %s; chain of D data classes (D=4 quick (3 for dictlist), 5 thorough) each with Options(max_depth=m) alone, with collect_errors, and with collect_errors + ignore_constraints; m in 1..D+1 '
              'and the input depth d in 1..D are solver integers; the position of the nested value at every level is '
              'solver-chosen: list/tuple index 0..1 (thorough: 0..2 + optional trailing element at the outermost level), mapping key a symbolic string of '
              'length <= 1 over {a,b} (includes the empty key); the innermost node provides a field, nothing, or only an unknown key; accepted <=> d <= m' % _k,
       out='depths > 5; max_depth <= 0 (documented as "no limit")')((lambda k: lambda V: _exact(V, k))(_k))


# ------------------------------------------------------------------ self-referential classes, cyclic inputs
def _self_ref(m):
    class S(Schema):
        __options__ = Options(max_depth=m)
        v: int = 0
        c: Optional['S'] = None
        kids: List['S'] = Field(default_factory=list)
        by_key: Dict[str, 'S'] = Field(default_factory=dict)
        alt: Union[int, 'S'] = 0
    S.__name__ = S.__qualname__ = 'S%d' % m
    return S


SELF = {}


def self_cls(m):
    if m not in SELF:
        SELF[m] = _self_ref(m)
    return SELF[m]


def _cyclic(V, m):
    n = V.pick('n', [1, 2, 3])
    cls = self_cls(m)
    nodes = [{'v': i} for i in range(n)]
    for i in range(n):
        nxt = nodes[(i + 1) % n]
        k = V.pick('route%d' % i, ['c', 'kids0', 'kids1', 'key_empty', 'key_k', 'alt'])
        if k == 'c':
            nodes[i]['c'] = nxt
        elif k == 'kids0':
            nodes[i]['kids'] = [nxt]
        elif k == 'kids1':
            nodes[i]['kids'] = [{'v': 9}, nxt]
        elif k == 'key_empty':
            nodes[i]['by_key'] = {'': nxt}
        elif k == 'key_k':
            nodes[i]['by_key'] = {'k': nxt}
        else:
            nodes[i]['alt'] = nxt
    r = attempt(cls, **nodes[0])
    V.check(r[0] == 'err', 'cyclic:' + ('accepted' if r[0] == 'ok' else 'crash'),
            lambda: 'max_depth=%d cycle=%d -> %s' % (m, n, type(r[1]).__name__))
    V.check(_has_depth_error(r[1]), 'cyclic:wrong-error', lambda: repr(r[1])[:300])
    V.cover('reject')


def _self_ref_exact(V, m):
    d = V.pick('d', [1, 2, 3, 4, 5, 6] if V.thorough else [1, 2, 3, 4, 5])
    cls = self_cls(m)
    x = V.pick('leaf', [{'v': 1}, {'unknown': 1}])
    for level in range(d - 1, 0, -1):
        k = V.pick('route%d' % level, ['c', 'kids0', 'kids1', 'key_empty', 'key_k', 'alt'] if level <= (3 if V.thorough else 2)
                   else ['c', 'kids0', 'key_empty'])
        y = {'v': level}
        if k == 'c':
            y['c'] = x
        elif k == 'kids0':
            y['kids'] = [x]
        elif k == 'kids1':
            y['kids'] = [{'v': 9}, x]
        elif k == 'key_empty':
            y['by_key'] = {'': x}
        elif k == 'key_k':
            y['by_key'] = {'k': x}
        else:
            y['alt'] = x
        x = y
    r = attempt(cls, **x)
    ok = r[0] == 'ok'
    expect = d <= m
    V.check(r[0] != 'crash', 'depth:crash', lambda: repr(r[1]))
    V.check(ok == expect, 'depth:' + ('rejected-within-limit' if expect else 'accepted-beyond-limit'),
            lambda: 'self-ref depth=%d max_depth=%d input=%r accepted=%r' % (d, m, x, ok))
    V.cover('accept' if ok else 'reject')


for _m in (1, 2, 3, 4, 5):
    ob('cyclic/m%d' % _m, marks=['reject'], budget=(150, 400),
       bounds='self-referential Schema (fields Optional[S], List[S], Dict[str,S], Union[int,S]) with max_depth=%d; '
              'input = a cycle of length 1..3 whose every edge uses a solver-picked route (field, list index 0..1, '
              'mapping key from {"", "k"}, union): always rejected with a depth error, never RecursionError' % _m,
       out='cycles longer than 3')((lambda m: lambda V: _cyclic(V, m))(_m))
    ob('self-ref/m%d' % _m, marks=['accept', 'reject'] if _m < 5 else ['accept'], budget=(60, 300),
       bounds='the same self-referential Schema with max_depth=%d: depth d in 1..5 (6 thorough) and a solver-picked '
              'route per level (6 routes at the two (thorough: three) outer levels, 3 below); accepted <=> d <= m'
              % _m, out='depth > 6')((lambda m: lambda V: _self_ref_exact(V, m))(_m))


class S0(Schema):
    # no limit of its own: the limit comes from overriding runtime / function options
    v: int = 0
    c: Optional['S0'] = None
    kids: List['S0'] = Field(default_factory=list)
    by_key: Dict[str, 'S0'] = Field(default_factory=dict)
    alt: Union[int, 'S0'] = 0


OVERRIDE_FN = {}


def override_fn(m):
    if m not in OVERRIDE_FN:
        import utype as _u

        @_u.parse(options=Options(max_depth=m, override=True))
        def take(s: S0):
            return s
        OVERRIDE_FN[m] = take
    return OVERRIDE_FN[m]


@ob('exact/runtime-override', marks=['accept', 'reject'], budget=(90, 300),
    bounds='a self-referential Schema without a limit of its own, parsed (a) with S.__from__(x, options=Options(max_depth=m, '
           'override=True)) and (b) as the parameter of @parse(options=Options(max_depth=m, override=True)); m in 1..4, depth d in 1..5, '
           'route per level solver-picked (field, list index 0..1, mapping key "" / "k", union); a cycle of length 1..2 as well: '
           'accepted <=> d <= m (d + 1 <= m through the function, whose parameter context is the outermost level), cycles always rejected with a depth error')
def exact_runtime_override(V):
    m = V.pick('m', [1, 2, 3, 4])
    via = V.pick('via', ['__from__', 'function'])
    routes = ['c', 'kids0', 'kids1', 'key_empty', 'key_k', 'alt']

    def link(parent, k, child):
        if k == 'c':
            parent['c'] = child
        elif k == 'kids0':
            parent['kids'] = [child]
        elif k == 'kids1':
            parent['kids'] = [{'v': 9}, child]
        elif k == 'key_empty':
            parent['by_key'] = {'': child}
        elif k == 'key_k':
            parent['by_key'] = {'k': child}
        else:
            parent['alt'] = child
    cyclic = V.bool('cyclic')
    if cyclic:
        n = V.pick('n', [1, 2])
        nodes = [{'v': i} for i in range(n)]
        for i in range(n):
            link(nodes[i], V.pick('route%d' % i, routes), nodes[(i + 1) % n])
        x, d = nodes[0], None
    else:
        d = V.pick('d', [1, 2, 3, 4, 5])
        x = V.pick('leaf', [{'v': 1}, {'unknown': 1}])
        for level in range(d - 1, 0, -1):
            y = {'v': level}
            link(y, V.pick('route%d' % level, routes if level <= 1 else ['c', 'kids0', 'key_empty']), x)
            x = y
    if via == '__from__':
        r = attempt(S0.__from__, x, options=Options(max_depth=m, override=True))
    else:
        r = attempt(override_fn(m), x)
    ok = r[0] == 'ok'
    det = lambda: 'via %s max_depth=%d (override) %s input=%r accepted=%r%s' % (
        via, m, 'cyclic' if cyclic else 'depth=%d' % d, x if not cyclic else '<cycle>', ok, '' if ok else ' error=%s' % type(r[1]).__name__)
    V.check(r[0] != 'crash' or isinstance(r[1], exc.ParseError), 'depth:crash', det)
    if cyclic:
        V.check(r[0] == 'err' and _has_depth_error(r[1]), 'cyclic:' + ('accepted' if ok else 'wrong-error'), det)
        V.cover('reject')
        return
    # (the decorated function's own parameter context is the outermost level: the limit counts it)
    expect = (d + 1 <= m) if via == 'function' else (d <= m)
    V.check(ok == expect, 'depth:' + ('rejected-within-limit' if expect else 'accepted-beyond-limit') + ':override', det)
    V.cover('accept' if ok else 'reject')


def _decorated(m):
    import utype as _u

    @_u.dataclass(options=Options(max_depth=m))
    class DN:
        v: int = 0
        c: Optional['DN'] = None
        kids: List['DN'] = Field(default_factory=list)
    return DN


@ob('self-ref/decorated-dataclass', marks=['accept', 'reject'], budget=(60, 200),
    bounds='a self-referential class declared with @utype.dataclass(options=Options(max_depth=m)) (its own converter is looked up while '
           'its fields are generated), created per path, m in 1..3; depth d in 1..4 through Optional / List routes: accepted <=> d <= m')
def self_ref_decorated(V):
    m = V.pick('m', [1, 2, 3])
    d = V.pick('d', [1, 2, 3, 4])
    with V.notrace():
        cls = _decorated(m)
    x = {'v': 1}
    for level in range(d - 1, 0, -1):
        x = {'v': level, 'c': x} if V.bool('via_c%d' % level) else {'v': level, 'kids': [x]}
    r = attempt(cls, **x)
    ok = r[0] == 'ok'
    V.check(r[0] != 'crash' or isinstance(r[1], exc.ParseError), 'depth:crash', lambda: repr(r[1]))
    V.check(ok == (d <= m), 'depth:' + ('rejected-within-limit' if d <= m else 'accepted-beyond-limit') + ':decorated',
            lambda: '@dataclass max_depth=%d depth=%d input=%r accepted=%r%s' % (m, d, x, ok, '' if ok else ' error=%r' % (r[1],)))
    V.cover('accept' if ok else 'reject')


# ------------------------------------------------------------------ cost
COUNT = [0]


class Leaf:
    def __init__(self, v):
        self.v = v


@register_transformer(Leaf)
def _to_leaf(transformer, data, cls):
    COUNT[0] += 1
    if data == 'bad' or isinstance(data, (list, dict)):
        raise ValueError('bad leaf')
    if transformer.no_data_loss and isinstance(data, float):
        raise ValueError('lossy leaf')
    return cls(data)


class CU(Schema):
    v: Leaf = None
    alt: Optional['CU'] = None


class CL(Schema):
    v: Leaf = None
    kids: List['CL'] = Field(default_factory=list)


class CX(Schema):
    v: Leaf = None
    alt: Union['CX', int] = 0


class CD(Schema):
    v: Leaf = None
    by: Dict[str, Union['CD', None]] = Field(default_factory=dict)


COST = {'optional': CU, 'list': CL, 'union-int': CX, 'dict-union': CD}


def _cost(V, kind):
    cls = COST[kind]
    D = V.T(6, 8)
    d = V.int('d', 1, D)
    depth = 1
    while depth < D and not (d == depth):
        depth += 1
    bad = V.bool('bad_leaf')
    width = V.pick('width', [1, 2]) if kind in ('list', 'dict-union') else 1
    leaves = [0]

    def mk(level):
        leaves[0] += 1
        node = {'v': 'bad' if (bad and level == depth) else level}
        if level < depth:
            if kind in ('optional', 'union-int'):
                node['alt'] = mk(level + 1)
            elif kind == 'list':
                node['kids'] = [mk(level + 1)] + ([{'v': 0}] if width == 2 else [])
                leaves[0] += width - 1
            else:
                node['by'] = dict([('k', mk(level + 1))] + ([('z', {'v': 0})] if width == 2 else []))
                leaves[0] += width - 1
        return node

    x = mk(1)
    COUNT[0] = 0
    r = attempt(cls, **x)
    n = COUNT[0]
    V.check(r[0] != 'crash', 'cost:crash', lambda: repr(r[1]))
    limit = 3 * (depth + 1) * leaves[0]
    known_shape = n <= (3 ** depth - 1) // 2 + limit     # the 3-stage retry of a failing nested data class (K-C18-...)
    V.check(n <= limit, 'cost:superpolynomial:' + ('invalid' if bad else 'valid') +
            (':3-stage-retry' if known_shape else ':beyond-known'),
            lambda: '%s depth=%d leaves=%d bad_leaf=%r: %d leaf conversions > 3*(d+1)*leaves = %d' % (
                kind, depth, leaves[0], bad, n, limit))
    V.cover('valid' if not bad else 'invalid')


for _k in COST:
    ob('cost/' + _k, marks=['valid', 'invalid'], budget=(60, 200),
       bounds='self-referential data class nested through %s; depth d in 1..6 (8 thorough) solver integer, valid leaf or '
              'a single invalid innermost leaf (solver bool), width 1..2; leaf conversions <= 3*(d+1)*leaves' % _k,
       out='depth > 8: growth is extrapolated, not proved')((lambda k: lambda V: _cost(V, k))(_k))


# ------------------------------------------------------------------ statically nested unions (no data class in between)
STATIC = {}


HOLDERS = {}


def static_holder(k, tag, opts):
    if (k, tag) not in HOLDERS:
        from utype import Schema
        HOLDERS[(k, tag)] = type('Holder', (Schema,), {'__options__': Options(**opts), '__annotations__': {'x': static_type(k)}})
    return HOLDERS[(k, tag)]


def static_type(k):
    if k not in STATIC:
        from utype import Rule
        t = Leaf
        for _ in range(k):
            t = List[Union[Leaf, t]]
        STATIC[k] = Rule.parse_annotation(t)
    return STATIC[k]


@ob('cost/static-union', marks=['valid', 'invalid', 'lossy'], budget=(60, 200),
    bounds='T(k+1) = List[Union[Leaf, T(k)]] nested k times, k in 1..10 solver integer; input = k nested one-element lists '
           'around a valid leaf, an invalid leaf, or a leaf that converts only in the lossy (last) union stage; converted by type_transform or as a Schema field, '
           'declared options none or the defaults spelled out (no_explicit_cast=False / no_data_loss=False); leaf conversions '
           '<= (k+1)^3 (the staged retries give a cubic count on the pinned tree: 441 at k=12)',
    out='k > 10: growth is extrapolated, not proved')
def cost_static(V):
    from utype.utils.transform import type_transform
    K = 10
    k = V.int('k', 1, K)
    depth = 1
    while depth < K and not (k == depth):
        depth += 1
    leaf = V.pick('leaf', [1, 'bad', 1.5])
    # the declared options may spell out defaults explicitly (no_explicit_cast=False): same work as leaving them out
    declared = V.pick('declared', ['none', 'no_explicit_cast=False', 'no_data_loss=False', 'both=False'])
    opts = {'none': {}, 'no_explicit_cast=False': {'no_explicit_cast': False}, 'no_data_loss=False': {'no_data_loss': False},
            'both=False': {'no_explicit_cast': False, 'no_data_loss': False}}[declared]
    route = V.pick('route', ['type_transform', 'schema-field'])
    with V.notrace():
        T = static_type(depth)
        holder = static_holder(depth, declared, opts)
    x = leaf
    for _ in range(depth):
        x = [x]
    COUNT[0] = 0
    if route == 'type_transform':
        r = attempt(type_transform, x, T, Options(**opts))
    else:
        r = attempt(holder, x=x)
    n = COUNT[0]
    limit = (depth + 1) ** 3
    V.check(n <= limit, 'cost:superpolynomial:static-union',
            lambda: 'static union nesting k=%d leaf=%r declared options %s via %s: %d leaf conversions > (k+1)^3 = %d' % (depth, leaf, declared, route, n, limit))
    V.cover('valid' if leaf == 1 else 'invalid' if leaf == 'bad' else 'lossy')
