"""C07 -- data-class instances stay valid under every sequence of mutations"""
from decimal import Decimal
from typing import Final, Union

from utype import DataClass, Field, Options, Schema, exc, types
from vt.ob import ob

PROP = 'C07'
ASSUMPTIONS = [
    'one inductive step from an arbitrary valid state: the pre-state is built through the public API from solver-chosen '
    'presence bits and conforming solver integers (optional fields removed by del when the bit is off), then one operation with '
    'solver-chosen key and value; together with construction (C05) this covers histories of any length provided every '
    'reachable state is such a state -- the bounded-history obligations (history/*) check that proviso for 2 (3) steps',
    "'raises' means any Exception; then the mapping and the attribute dict must equal their snapshot",
    'validity after a successful operation: every present field is an int >= 0 (its declared type and constraint), required '
    'fields present, immutable fields unchanged, attribute view == key view for output fields, no_output fields absent from the '
    'mapping, dependent property recomputed after an assignment to one of its dependencies (a deletion leaves it as it was: '
    'pinned by the repository\'s own test), unknown keys absent (addition=None)',
]


class K1(Schema):
    r: int = Field(ge=0)
    o: int = Field(ge=0, required=False)
    d: int = Field(ge=0, default=5)
    im: int = Field(ge=0, immutable=True, default=1)
    fin: Final[int] = Field(ge=0)


class K2(Schema):
    a: int = Field(alias='A1', ge=0)
    h: int = Field(no_output=True, default=2, ge=0)
    b: int = Field(ge=0, default=1)

    @property
    @Field(dependencies=['a', 'b'])
    def s(self) -> int:
        return self.a + self.b


class In(Schema):
    x: int = Field(ge=0)


class K3(Schema):
    inner: In
    n: int = Field(ge=0, default=0)
    opt: In = Field(required=False)


class K5(Schema):
    __options__ = Options(addition=int)
    r: int = Field(ge=0)
    o: int = Field(ge=0, required=False, on_error='exclude')
    p: int = Field(ge=0, required=False, on_error='preserve')


class K6(Schema):
    __options__ = Options(invalid_values='exclude')
    r: int = Field(ge=0)
    o: int = Field(ge=0, required=False)
    d: int = Field(ge=0, default=5)


class P0(Schema):
    a: int = Field(alias='A1', ge=0)
    h: int = Field(no_output=True, default=2, ge=0)
    b: int = Field(ge=0, default=1)

    @property
    @Field(dependencies=['a', 'b'])
    def s(self) -> int:
        return self.a + self.b


class K7(P0):
    b: int = Field(ge=0, default=3)         # re-declares a dependency of the inherited property
    key: int = Field(ge=0, no_output=True)   # required, lives in the attribute view only


class K8(Schema):
    # no required field (clear() is allowed), errors collected, a property that depends on a property
    __options__ = Options(collect_errors=True)
    o: int = Field(ge=0, required=False)
    d: int = Field(ge=0, default=5)
    n: int = Field(alias='N1', ge=0, required=False)      # key and attribute name differ

    @property
    @Field(dependencies=['o', 't'])
    def w(self) -> int:                                     # declared before the property it depends on (a diamond: o -> t -> w, o -> w)
        return self.o + self.t

    @property
    @Field(dependencies=['o'])
    def t(self) -> int:
        return self.o * 2

    @property
    @Field(dependencies=['t'])
    def u(self) -> int:
        return self.t + 1


class K4(DataClass):
    r: int = Field(ge=0)
    o: int = Field(ge=0, required=False)
    im: int = Field(ge=0, immutable=True, default=1)


class K4C(DataClass):
    __options__ = Options(collect_errors=True)
    r: int = Field(ge=0)
    o: int = Field(ge=0, required=False)
    im: int = Field(ge=0, immutable=True, default=1)


SPEC = {
    # name: (cls, fields {attname: (output key, required, immutable, no_output)}, key vocabulary)
    'K1': (K1, {'r': ('r', True, False, False), 'o': ('o', False, False, False), 'd': ('d', False, False, False),
                'im': ('im', False, True, False), 'fin': ('fin', True, True, False)}, ['r', 'o', 'd', 'im', 'fin', 'zz']),
    'K2': (K2, {'a': ('A1', True, False, False), 'h': ('h', False, False, True), 'b': ('b', False, False, False)},
           ['a', 'A1', 'h', 'b', 's', 'zz']),
    'K5': (K5, {'r': ('r', True, False, False), 'o': ('o', False, False, False), 'p': ('p', False, False, False)},
           ['r', 'o', 'p', 'zz', 'yy']),
    'K6': (K6, {'r': ('r', True, False, False), 'o': ('o', False, False, False), 'd': ('d', False, False, False)},
           ['r', 'o', 'd', 'zz']),
    'K7': (K7, {'a': ('A1', True, False, False), 'h': ('h', False, False, True), 'b': ('b', False, False, False),
                'key': ('key', True, False, True)}, ['a', 'A1', 'h', 'b', 's', 'key', 'zz']),
    'K8': (K8, {'o': ('o', False, False, False), 'd': ('d', False, False, False), 'n': ('N1', False, False, False)},
           ['o', 'd', 'n', 'N1', 't', 'u', 'w', 'zz']),
    'K3': (K3, {'inner': ('inner', True, False, False), 'n': ('n', False, False, False), 'opt': ('opt', False, False, False)},
           ['inner', 'n', 'opt', 'zz']),
}

OPS = ['setitem', 'setattr', 'delitem', 'delattr', 'pop', 'popitem', 'update-dict', 'update-kw', 'setdefault', 'clear',
       'ior', 'copy-mutate', 'update-2keys', 'ior-2keys', 'ior-instance', 'update-instance']
MULTI = ('update-2keys', 'ior-2keys', 'ior-instance', 'update-instance')


def ok_int(v):
    return isinstance(v, int) and v >= 0


def field_ok(name, attname, v):
    if name in ('K3',) and attname in ('inner', 'opt'):
        return isinstance(v, In) and dict.__contains__(v, 'x') and ok_int(dict.__getitem__(v, 'x'))
    return ok_int(v)


def snapshot(inst):
    return dict(dict.items(inst)), {k: v for k, v in inst.__dict__.items() if not k.startswith('__')}


def build(V, name, tag=''):
    cls, fields, _ = SPEC[name]
    kw = {}
    absent = []
    if name == 'K1':
        kw['r'] = V.int(tag + 's_r', 0, None)
        if V.bool(tag + 's_has_o'):
            kw['o'] = V.int(tag + 's_o', 0, None)
        if V.bool(tag + 's_has_d'):
            kw['d'] = V.int(tag + 's_d', 0, None)
        else:
            absent.append('d')
        kw['im'] = V.int(tag + 's_im', 0, 3)
        kw['fin'] = V.int(tag + 's_fin', 0, 3)
    elif name in ('K2', 'K7'):
        if name == 'K7':
            kw['key'] = V.int(tag + 's_key', 0, 3)
        kw['a'] = V.int(tag + 's_a', 0, None)
        kw['h'] = V.int(tag + 's_h', 0, 3)
        if V.bool(tag + 's_has_b'):
            kw['b'] = V.int(tag + 's_b', 0, None)
        else:
            absent.append('b')
    elif name == 'K8':
        if V.bool(tag + 's_has_o'):
            kw['o'] = V.int(tag + 's_o', 0, None)
        if V.bool(tag + 's_has_d'):
            kw['d'] = V.int(tag + 's_d', 0, None)
        else:
            absent.append('d')
        if V.bool(tag + 's_has_n'):
            kw['n'] = V.int(tag + 's_n', 0, 3)
    elif name in ('K5', 'K6'):
        kw['r'] = V.int(tag + 's_r', 0, None)
        if V.bool(tag + 's_has_o'):
            kw['o'] = V.int(tag + 's_o', 0, None)
        if name == 'K5' and V.bool(tag + 's_has_zz'):
            kw['zz'] = V.int(tag + 's_zz', -3, 3)
    else:
        kw['inner'] = {'x': V.int(tag + 's_x', 0, None)}
        kw['n'] = V.int(tag + 's_n', 0, None)
        if V.bool(tag + 's_has_opt'):
            kw['opt'] = {'x': V.int(tag + 's_ox', 0, 3)}
    inst = cls(**kw)
    for k in absent:
        del inst[k]
    return inst


def new_value(V, name, key, tag):
    k = V.pick(tag + 'vkind', ['int', 'num', 'bad'])
    if name == 'K3' and key in ('inner', 'opt'):
        if k == 'int':
            return {'x': V.int(tag + 'v', None, None)}
        return {'x': '5'} if k == 'num' else V.pick(tag + 'vbad', [{'x': 'q'}, 'x', {}, 7])
    if k == 'int':
        return V.int(tag + 'v')
    return '5' if k == 'num' else 'x'


def set_attr(obj, key, v):
    # STORE_ATTR opcodes instead of the setattr() builtin (CrossHair runs the builtin's callee untraced)
    if key == 'r':
        obj.r = v
    elif key == 'o':
        obj.o = v
    elif key == 'd':
        obj.d = v
    elif key == 'im':
        obj.im = v
    elif key == 'fin':
        obj.fin = v
    elif key == 'key':
        obj.key = v
    elif key == 'a':
        obj.a = v
    elif key == 'b':
        obj.b = v
    elif key == 'h':
        obj.h = v
    elif key == 's':
        obj.s = v
    elif key == 'n':
        obj.n = v
    elif key == 'inner':
        obj.inner = v
    elif key == 'opt':
        obj.opt = v
    else:
        setattr(obj, key, v)


def apply(V, name, inst, op, tag=''):
    """returns (target instance whose validity is checked, raised?)"""
    keys = SPEC[name][2]
    target = inst
    if op == 'copy-mutate':
        target = inst.copy()
        op2 = V.pick(tag + 'copy_op', ['setitem', 'setattr', 'delitem', 'pop'])
    try:
        if op in ('popitem', 'clear'):
            getattr(inst, op)()
            return target, False, None, None
        if op in ('ior-instance', 'update-instance'):
            # the operand is another valid instance of the same class (a multi-key update: may be applied partially)
            other = build(V, name, tag + 'other_')
            if op == 'ior-instance':
                inst |= other
            else:
                inst.update(other)
            return target, False, 'instance', dict(dict.items(other))
        if op in ('update-2keys', 'ior-2keys') and name == 'K8':
            keys = ['o', 'd', 'N1', 't', 'zz']        # (pairs over the full vocabulary of K8 do not close in the quick budget)
        key = V.pick(tag + 'key', keys)
        if op in ('update-2keys', 'ior-2keys'):
            # a multi-key update may be applied partially when a later key is rejected, but whatever it leaves behind
            # must be a valid instance (checked by the caller with partial=True)
            v = new_value(V, name, key, tag)
            key2 = V.pick(tag + 'key2', keys)
            v2 = new_value(V, name, key2, tag + 'second_')
            if op == 'update-2keys':
                inst.update({key: v, key2: v2})
            else:
                inst |= {key: v, key2: v2}
            return target, False, (key, key2), (v, v2)
        if op in ('delitem', 'delattr', 'pop'):
            if op == 'delitem':
                del inst[key]
            elif op == 'delattr':
                delattr(inst, key)
            else:
                if V.bool(tag + 'pop_default'):
                    inst.pop(key, None)
                else:
                    inst.pop(key)
            return target, False, key, None
        v = new_value(V, name, key, tag)
        if op == 'setitem':
            inst[key] = v
        elif op == 'setattr':
            set_attr(inst, key, v)
        elif op == 'update-dict':
            inst.update({key: v})
        elif op == 'update-kw':
            inst.update(**{key: v})
        elif op == 'setdefault':
            inst.setdefault(key, v)
        elif op == 'ior':
            inst |= {key: v}
        elif op == 'copy-mutate':
            if op2 == 'setitem':
                target[key] = v
            elif op2 == 'setattr':
                set_attr(target, key, v)
            elif op2 == 'delitem':
                del target[key]
            else:
                target.pop(key)
        return target, False, key, v
    except Exception as e:  # noqa
        return target, e, None, None


def valid(V, name, inst, sig_prefix, det, immutables, dep_changed=False):
    cls, fields, _ = SPEC[name]
    data = dict(dict.items(inst))
    attrs = inst.__dict__
    for att, (okey, required, immutable, no_output) in fields.items():
        present = okey in data
        if no_output:
            V.check(not present, sig_prefix + ':no_output-in-mapping', det)
            if required:
                V.check(att in attrs, sig_prefix + ':required-missing:' + att, det)
            if att in attrs:
                V.check(field_ok(name, att, attrs[att]), sig_prefix + ':unparsed-attribute:' + att, det)
            continue
        if required:
            V.check(present, sig_prefix + ':required-missing:' + att, det)
        if not present:
            # the attribute view agrees: nothing stale left behind in the instance dict
            V.check(att not in attrs, sig_prefix + ':stale-attribute:' + att, det)
        if present and name == 'K5' and att == 'p':
            continue            # on_error='preserve' is the documented unsafe option
        if present:
            V.check(field_ok(name, att, data[okey]), sig_prefix + ':nonconforming:' + att, det)
            try:
                got = getattr(inst, att)
            except Exception as e:  # noqa
                got = e
            V.check(not isinstance(got, Exception) and got == data[okey] and type(got) is type(data[okey]),
                    sig_prefix + ':views-disagree:' + att, lambda: det() + ' ; attribute %s -> %r' % (att, got))
        if immutable and att in immutables:
            V.check(present and data[okey] == immutables[att], sig_prefix + ':immutable-changed:' + att, det)
    extra = set(data) - {f[0] for f in fields.values()} - ({'s'} if name in ('K2', 'K7') else {'t', 'u', 'w'} if name == 'K8' else set())
    if name == 'K8':
        # the chain o -> t -> u: whenever a dependency and its dependant are both present they agree, and right after an
        # assignment to o both dependants are present
        for k in ('t', 'u', 'w'):
            if k in data:
                V.check(ok_int(data[k]), sig_prefix + ':nonconforming:' + k, det)
        if 'o' in data and ('t' in data or dep_changed):
            V.check(data.get('t') == data['o'] * 2, sig_prefix + ':dependant-stale', det)
        if 't' in data and ('u' in data or dep_changed):
            V.check(data.get('u') == data['t'] + 1, sig_prefix + ':dependant-stale:transitive', det)
        if 'o' in data and 't' in data and ('w' in data or dep_changed):
            V.check(data.get('w') == data['o'] + data['t'], sig_prefix + ':dependant-stale:diamond', det)
    if name == 'K5':
        # addition=int: unknown keys are kept, converted
        V.check(all(isinstance(data[k], int) and not isinstance(data[k], bool) for k in extra), sig_prefix + ':unparsed-addition', det)
        extra = set()
    if name in ('K2', 'K7') and 's' in data:
        V.check(ok_int(data['s']), sig_prefix + ':nonconforming:s', det)
    V.check(not extra, sig_prefix + ':unknown-key-stored', det)
    if name in ('K2', 'K7'):
        # an assignment to a dependency re-computes the dependent property (deleting a dependency leaves the dependant as
        # it was: pinned by the repository's own test "slug is not affected"); so whenever both dependencies and the
        # property are present they agree, and right after an assignment the property is present
        if 'A1' in data and 'b' in data and ('s' in data or dep_changed):
            V.check(data.get('s') == data['A1'] + data['b'], sig_prefix + ':dependant-stale', det)


ASSIGN_OPS = ('setitem', 'setattr', 'update-dict', 'update-kw', 'setdefault', 'ior')


def _dep_changed(name, raised, op, key, before):
    if name == 'K8':
        if raised or op not in ASSIGN_OPS or key != 'o':
            return False
        return not (op == 'setdefault' and 'o' in before[0])
    if name not in ('K2', 'K7') or raised or op not in ASSIGN_OPS or key not in (('a', 'b') if op == 'setattr' else ('a', 'A1', 'b')):
        return False
    if op == 'setdefault' and ({'a': 'A1'}.get(key, key)) in before[0]:
        return False          # key already present: setdefault assigns nothing
    return True


def _step(V, name, op):
    inst = build(V, name)
    before = snapshot(inst)
    imm = {att: before[0].get(f[0]) for att, f in SPEC[name][1].items() if f[2]}
    target, raised, key, v = apply(V, name, inst, op)
    after = snapshot(inst)
    det = lambda: '%s state=%r attrs=%r ; %s(key=%r, value=%r) %s ; after: %r attrs=%r%s' % (
        name, before[0], before[1], op, key, v, 'raised %s' % type(raised).__name__ if raised else 'ok', after[0], after[1],
        '' if target is inst else ' ; copy: %r attrs=%r' % snapshot(target))
    if raised and op not in MULTI:
        V.check(after == before, 'step:raised-but-changed', det)
        if target is not inst:
            V.check(snapshot(target)[0] == before[0] or True, 'step:copy', det)
        V.cover('raised')
    else:
        V.cover('applied')
    valid(V, name, inst, 'step', det, imm, dep_changed=_dep_changed(name, raised, op, key, before))
    if target is not inst:
        # the copy is an instance of its own: valid, and mutating it must not have touched the original
        valid(V, name, target, 'step:copy', det, imm)
        V.check(after == before, 'step:copy-shares-state', det)


for _n in SPEC:
    for _op in OPS:
        ob('step/%s/%s' % (_n, _op), marks=['applied'] if _op in ('copy-mutate', 'setdefault', 'ior', 'update-dict', 'update-kw', 'setitem', 'setattr', 'update-2keys', 'ior-2keys') else [],
           thorough_only=(_op == 'update-instance'),
           budget=(150 if '2keys' in _op or 'instance' in _op else 60, 400),
           bounds='%s: any valid state (presence of optional fields and conforming values solver-chosen, unbounded ints) then '
                  'one %s with key from %r and value = unbounded solver int | "5" | "x" (nested: dict forms)' % (
                      _n, _op, SPEC[_n][2]),
           out='histories are covered inductively; see ASSUMPTIONS')((lambda n, o: lambda V: _step(V, n, o))(_n, _op))


def _history(V, name, k):
    inst = build(V, name)
    imm = {att: dict.get(inst, f[0]) for att, f in SPEC[name][1].items() if f[2]}
    trace = []
    for i in range(k):
        op = V.pick('op%d' % i, [o for o in OPS if o != 'copy-mutate'])
        before = snapshot(inst)
        target, raised, key, v = apply(V, name, inst, op, tag='h%d_' % i)
        trace.append((op, key, v, type(raised).__name__ if raised else None))
        after = snapshot(inst)
        det = lambda: '%s history %r -> %r attrs=%r' % (name, trace, after[0], after[1])
        if raised and op not in MULTI:
            V.check(after == before, 'history:raised-but-changed', det)
        valid(V, name, inst, 'history', det, imm, dep_changed=_dep_changed(name, raised, op, key, before))
    V.cover('done')


for _n in SPEC:
    ob('history/' + _n, marks=['done'], budget=(60, 600), exhaustive=False,
       bounds='%s: valid start state then 2 (3 thorough) solver-chosen operations (11 kinds x key x value), validity after every '
              'step' % _n, out='tree not expected to close in the quick tier')(
        (lambda n: lambda V: _history(V, n, 3 if V.thorough else 2))(_n))


# ------------------------------------------------------------------ DataClass (attribute API only)
@ob('dataclass-attrs', marks=['applied', 'raised'], budget=(60, 200),
    bounds='DataClass (plain and with Options(collect_errors=True)) with required / optional / immutable int fields: valid state then setattr / delattr with solver key and '
           'value; afterwards every present attribute conforms, required present, immutable unchanged')
def dataclass_attrs(V):
    kw = {'r': V.int('s_r', 0, None), 'im': V.int('s_im', 0, 3)}
    if V.bool('s_has_o'):
        kw['o'] = V.int('s_o', 0, None)
    cls = V.pick('cls', [K4, K4C])
    inst = cls(**kw)
    before = {k: v for k, v in inst.__dict__.items() if not k.startswith('__')}
    op = V.pick('op', ['setattr', 'delattr'])
    key = V.pick('key', ['r', 'o', 'im'])
    raised = None
    v = None
    try:
        if op == 'setattr':
            k = V.pick('vkind', ['int', 'num', 'bad'])
            v = V.int('v') if k == 'int' else '5' if k == 'num' else 'x'
            setattr(inst, key, v)
        else:
            delattr(inst, key)
    except Exception as e:  # noqa
        raised = e
    after = {k: v for k, v in inst.__dict__.items() if not k.startswith('__')}
    det = lambda: '%s %r ; %s(%s, %r) %s ; after %r' % (cls.__name__, before, op, key, v, type(raised).__name__ if raised else 'ok', after)
    if raised:
        V.check(after == before, 'dc:raised-but-changed', det)
        V.cover('raised')
    else:
        V.cover('applied')
    V.check('r' in after, 'dc:required-missing', det)
    V.check(all(ok_int(x) for x in after.values()), 'dc:nonconforming', det)
    V.check(after.get('im') == before.get('im'), 'dc:immutable-changed', det)


# ------------------------------------------------------------------ equal but distinguishable values
class K9(Schema):
    amount: Decimal = Field(ge=0, default=Decimal('1.50'))
    flag: Union[bool, int] = 1

    @property
    @Field(dependencies=['amount'])
    def shown(self) -> str:
        return str(self.amount)

    @property
    @Field(dependencies=['flag'])
    def kind(self) -> str:
        return type(self.flag).__name__


AMOUNTS = [Decimal('1.5'), Decimal('1.50'), Decimal('1.500'), '1.5', 2, Decimal('2.0'), 'x', -1]
FLAGS = [1, True, 0, False, 2]


@ob('step/K9/equal-values', marks=['applied', 'raised'], budget=(40, 120),
    bounds='Schema with a Decimal field and a Union[bool, int] field, each with a dependent property that renders what == cannot see '
           '(the number of decimal places; bool vs int); initial values and the assigned value picked from equal-but-distinguishable '
           'spellings (1.5 / 1.50 / 1.500, 1 / True, 0 / False) and invalid ones; setattr / setitem / update / |=: afterwards the property '
           'renders the stored value')
def k9_equal_values(V):
    field = V.pick('field', ['amount', 'flag'])
    vals = AMOUNTS if field == 'amount' else FLAGS
    init = V.pick('init', [v for v in vals if v not in ('x', -1)])
    inst = K9(**{field: init})
    v = V.pick('value', vals)
    op = V.pick('op', ['setattr', 'setitem', 'update', 'ior'])
    before = dict(inst)
    raised = None
    try:
        if op == 'setattr':
            if field == 'amount':
                inst.amount = v
            else:
                inst.flag = v
        elif op == 'setitem':
            inst[field] = v
        elif op == 'update':
            inst.update({field: v})
        else:
            inst |= {field: v}
    except Exception as e:  # noqa
        raised = e
    after = dict(inst)
    det = lambda: 'K9 %r ; %s(%s, %r) %s ; after %r' % (before, op, field, v, type(raised).__name__ if raised else 'ok', after)
    if raised:
        V.check(after == before and str(after) == str(before), 'step:raised-but-changed', det)
        V.cover('raised')
    else:
        V.cover('applied')
    V.check(after['shown'] == str(after['amount']) and after['kind'] == type(after['flag']).__name__, 'step:dependant-stale:equal-value', det)


# ------------------------------------------------------------------ a dependant property that rejects the new value
class K10(Schema):
    a: int = Field(ge=0, default=10)
    b: int = Field(ge=0, default=1)

    @property
    @Field(dependencies=['a'])
    def rest(self) -> types.PositiveInt:
        return self.a - 5


@ob('step/K10/rejecting-dependant', marks=['applied', 'raised'], budget=(40, 120),
    bounds='Schema whose property rest = a - 5 must be a positive int: a valid state (a solver int >= 6), then a assigned (setattr / '
           'setitem / update / |=) a solver int | "7" | "x": the operation either raises and leaves the data as it was, or leaves '
           'rest == a - 5 > 0')
def k10_rejecting_dependant(V):
    inst = K10(a=V.int('a0', 6, None))
    k = V.pick('vkind', ['int', 'num', 'bad'])
    v = V.int('v') if k == 'int' else '7' if k == 'num' else 'x'
    op = V.pick('op', ['setattr', 'setitem', 'update', 'ior'])
    before = (dict(dict.items(inst)), {x: y for x, y in inst.__dict__.items() if not x.startswith('__')})
    raised = None
    try:
        if op == 'setattr':
            inst.a = v
        elif op == 'setitem':
            inst['a'] = v
        elif op == 'update':
            inst.update({'a': v})
        else:
            inst |= {'a': v}
    except Exception as e:  # noqa
        raised = e
    after = (dict(dict.items(inst)), {x: y for x, y in inst.__dict__.items() if not x.startswith('__')})
    det = lambda: 'K10 %r ; %s(a, %r) %s ; after %r' % (before[0], op, v, type(raised).__name__ if raised else 'ok', after[0])
    if raised:
        V.check(after == before, 'step:raised-but-changed:dependant-rejects', det)
        V.cover('raised')
    else:
        V.cover('applied')
    V.check(ok_int(after[0].get('a')) and after[0].get('rest') == after[0]['a'] - 5 and after[0]['rest'] > 0, 'step:dependant-stale', det)
