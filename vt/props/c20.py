"""C20 -- concurrent use is safe, including the first use of a type"""
import itertools
import sys
import types as pytypes

import utype
from utype import exc
from utype.parser.base import BaseParser
from utype.parser.field import ParserField
from utype.parser.func import FunctionParser
from utype.parser.rule import LogicalType, Rule, register_forward_ref
from utype.utils.base import TypeRegistry
from utype.utils.transform import TypeTransformer
from vt import sched
from vt.ob import ob

PROP = 'C20'
ASSUMPTIONS = [
    'engine E3 (vt/sched.py): real threads, exactly one running at a time; preemption points are the line boundaries of the watched '
    'functions (BaseParser.__call__ / resolve_forward_refs / apply_for, FunctionParser.resolve_forward_refs, ParserField / Rule / '
    'LogicalType.resolve_forward_refs, register_forward_ref, TypeRegistry.resolve / register and the key function of the registry sort, which runs while list.sort() holds the list detached); preemption inside callees that are not '
    'watched, inside C code, and free-threaded builds are outside the claim',
    'bounds: 2 threads (3 in one thorough scenario), at most 1 preemption (2 thorough) plus the free hand-over when a thread finishes; the solver role is the bookkeeping of the '
    'schedule tree (decisions are solver booleans; the tree is exhausted)',
    "reference: each thread's call run alone on a freshly created identical system",
]

WATCHED = sched.code_objects(
    BaseParser.__call__, BaseParser.resolve_forward_refs, BaseParser.apply_for, FunctionParser.resolve_forward_refs,
    ParserField.resolve_forward_refs, Rule.resolve_forward_refs, LogicalType.resolve_forward_refs, register_forward_ref,
    TypeRegistry.resolve, TypeRegistry.register, getattr(BaseParser, '_resolve_forward_refs', None),
)
# the inner decorator of TypeRegistry.register mutates the registry and the cache
for _const in TypeRegistry.register.__code__.co_consts:
    if hasattr(_const, 'co_name') and _const.co_name == 'decorator':
        WATCHED.add(_const)
        # the key function of the registry's sort runs Python code while list.sort() has the list detached
        for _inner in _const.co_consts:
            if hasattr(_inner, 'co_name') and _inner.co_name == '<lambda>':
                WATCHED.add(_inner)

COUNTER = itertools.count(1)
HEAD = 'from typing import List, Dict, Optional, Union\nimport utype\nfrom utype import Schema, Field, Options\n'


def load(src):
    n = next(COUNTER)
    name = 'vt_c20_%d' % n
    mod = pytypes.ModuleType(name)
    sys.modules[name] = mod
    exec(compile(src.replace('@@', str(n)), name + '.py', 'exec'), mod.__dict__)
    return mod, n


def outcome(fn):
    try:
        r = fn()
        if isinstance(r, dict):
            r = _plain(r)
        return ('ok', r)
    except exc.ParseError as e:
        return ('err', 'ParseError', str(getattr(e, 'item', None)))
    except Exception as e:  # noqa
        return ('crash', type(e).__name__, str(e)[:100])


def _plain(v):
    if isinstance(v, dict):
        return {k: _plain(x) for k, x in v.items()}
    if isinstance(v, (list, tuple)):
        return [_plain(x) for x in v]
    return v


NARROW = sched.code_objects(BaseParser.resolve_forward_refs, getattr(BaseParser, '_resolve_forward_refs', None))


def race(V, build, calls, tag, watched=None, preemptions=None, post=None):
    """build() -> namespace of a fresh system; calls = [f(ns) -> thunk result]; concurrent vs alone"""
    with V.notrace():
        systems = [build() for _ in range(len(calls) + 1)]
        alone = [outcome(lambda c=c, ns=systems[i + 1]: c(ns)) for i, c in enumerate(calls)]
    ns = systems[0]
    thunks = [(lambda c=c: outcome(lambda: c(ns))) for c in calls]
    results, trace = sched.run_schedule(V, thunks, watched or WATCHED, preemptions or V.T(1, 2))
    got = [r[1] if r and r[0] == 'ok' else ('crash', 'worker', repr(r)) for r in results]
    if post is not None:
        # what both threads did must still be in effect once they have finished
        after, want_after = outcome(lambda: post[0](ns)), post[1]
        V.check(after == want_after, 'concurrent:%s:lost-after-both-finished' % tag,
                lambda: 'schedule %r: after both threads finished %r, expected %r (threads: %r)' % (trace, after, want_after, got))
    for m in systems:
        sys.modules.pop(getattr(m.get('__mod__'), '__name__', ''), None) if isinstance(m, dict) else None
    V.check(not any(t[0] == 'deadlock' for t in trace), 'concurrent:deadlock:' + tag, lambda: 'schedule %r' % (trace,))
    for i, (g, a) in enumerate(zip(got, alone)):
        V.check(g == a, 'concurrent:%s:thread%d' % (tag, i),
                lambda: 'schedule %r: thread %d returned %r, alone it returns %r (all threads: %r)' % (trace, i, g, a, got))
    V.cover('preempted' if any(t[0] == 'preempt' for t in trace) else 'sequential')


# ------------------------------------------------------------------ s1: first parse of a class with pending forward references
S1 = HEAD + '''
class A@@(Schema):
    b: Optional['B@@'] = None
    cs: List['C@@'] = Field(default_factory=list)
    n: int = 0


class B@@(Schema):
    x: int = Field(ge=0)


class C@@(Schema):
    y: str = ''
    back: Optional['A@@'] = None
'''


def build_s1():
    mod, n = load(S1)
    return {'A': getattr(mod, 'A%d' % n), 'B': getattr(mod, 'B%d' % n), 'C': getattr(mod, 'C%d' % n), '__mod__': mod}


S1_INPUTS = [{'b': {'x': 1}, 'cs': [{'y': 'q'}]}, {'b': {'x': -1}}, {'cs': [{'back': {'b': {'x': '5'}}}]}, {'n': 'x'}, {}]


@ob('first-parse/forward-refs', marks=['preempted'], budget=(240, 900), per_path=(30, 60),
    bounds="two threads make the first parse of a class with two pending forward references (Optional['B'], List['C'], C referring "
           'back to A), each on a solver-picked input from 5 (valid, invalid nested, deep, invalid scalar, empty); every schedule (which thread starts is part of it) '
           'with at most 1 preemption (2 thorough) plus the free hand-over when a thread finishes at watched line boundaries', out='see ASSUMPTIONS')
def first_parse(V):
    i, j = V.pick('in0', list(range(len(S1_INPUTS))) if V.thorough else [0]), V.pick('in1', [0, 1, 2] if V.thorough else [1])
    race(V, build_s1, [lambda ns, d=S1_INPUTS[i]: dict(ns['A'](**d)), lambda ns, d=S1_INPUTS[j]: dict(ns['A'](**d))], 'first-parse')


@ob('first-parse/nested-first-use', marks=['preempted'], budget=(240, 900), per_path=(30, 60),
    bounds='thread 0 makes the first parse of A (which triggers the first parse of B and C), thread 1 the first parse of C (which '
           'refers back to A); same bounds')
def nested_first_use(V):
    i = V.pick('in0', [0, 2] if V.thorough else [2])
    race(V, build_s1, [lambda ns, d=S1_INPUTS[i]: dict(ns['A'](**d)),
                       lambda ns: dict(ns['C'](y='z', back={'b': {'x': 3}, 'cs': [{'y': 'w'}]}))], 'nested-first-use')


# ------------------------------------------------------------------ s3: function-local classes and decorated functions
S3 = HEAD + '''
def make@@():
    class Local(Schema):
        v: int = Field(ge=0, default=0)
        nxt: Optional['Local'] = None
        more: List['Local'] = Field(default_factory=list)
        lines: List['Later@@'] = Field(default_factory=list)
    return Local


@utype.parse
def fn@@(item: 'Later@@', k: Optional['Later@@'] = None) -> 'Later@@':
    return {'v': item.v + (k.v if k else 0)}


class Later@@(Schema):
    v: int = Field(ge=0)
'''


def build_s3():
    mod, n = load(S3)
    return {'Local': getattr(mod, 'make%d' % n)(), 'fn': getattr(mod, 'fn%d' % n), '__mod__': mod}


@ob('first-parse/local-class', marks=['preempted'], budget=(240, 900), per_path=(30, 60),
    bounds='two threads make the first parse of one function-local self-referencing class that also names a module-level class defined later (its forward references are un-evaluated '
           'again after each resolution) on solver-picked inputs; same bounds')
def local_class(V):
    ins = [{'v': 1, 'nxt': {'v': 2}, 'lines': [{'v': 1}, {'v': '2'}]}, {'nxt': {'v': -1}}, {'more': [{'v': '3'}, {'nxt': {'v': 4}}]},
           {'lines': [{'v': 5}, {'v': 6}]}]
    i, j = V.pick('in0', [0, 1, 2, 3] if V.thorough else [0]), V.pick('in1', [0, 1, 2, 3] if V.thorough else [2, 3])
    race(V, build_s3, [lambda ns, d=ins[i]: dict(ns['Local'](**d)), lambda ns, d=ins[j]: dict(ns['Local'](**d))], 'local-class')


S4 = HEAD + '''
class Base@@(Schema):
    x: 'Later@@' = Field(ge=1)
    z: 'Other@@' = Field(ge=1)


class Sub@@(Base@@):
    extra: int = 0


class Later@@(int, utype.Rule):
    le = 100


class Other@@(int, utype.Rule):
    le = 100
'''


def build_s4():
    mod, n = load(S4)
    return {'Base': getattr(mod, 'Base%d' % n), 'Sub': getattr(mod, 'Sub%d' % n), '__mod__': mod}


@ob('first-parse/base-and-subclass', marks=['preempted'], budget=(240, 900), per_path=(30, 60),
    bounds="a base class with two constrained string annotations (x: 'Later' = Field(ge=1), z: 'Other' = Field(ge=1)) and a subclass "
           '(own parser and lock, shared field and reference objects); thread 0 makes the first parse of the base, thread 1 of the '
           'subclass; every schedule with at most 1 preemption (2 thorough): both calls return what they return alone AND afterwards '
           'both classes still enforce the field constraints (x=0 is rejected)')
def base_and_subclass(V):
    good = {'x': 5, 'z': '7'}
    race(V, build_s4, [lambda ns: dict(ns['Base'](**good)), lambda ns: dict(ns['Sub'](**good))], 'base-and-subclass',
         post=(lambda ns: [outcome(lambda: dict(ns['Base'](x=0, z=5)))[0], outcome(lambda: dict(ns['Sub'](x=5, z=0)))[0],
                           outcome(lambda: dict(ns['Sub'](x=101, z=5)))[0]],
               ('ok', ['err', 'err', 'err'])))


ITEMS_WATCHED = sched.code_objects(getattr(BaseParser, '_resolve_forward_refs', None), BaseParser.resolve_forward_refs,
                                   getattr(Rule, '_parse_seq_args', None))


@ob('first-parse/local-class-items', marks=['preempted'], budget=(150, 1200), per_path=(30, 60), thorough_only=True,
    bounds='two threads make the first parse of the function-local class on a list of two items of the later-defined class; '
           'preemption points restricted to the resolution (resolve_forward_refs / _resolve_forward_refs) and to the item loop of the '
           'sequence parser (Rule._parse_seq_args), every schedule with at most 2 preemptions: a thread that picked the item type up '
           'before the other thread finished (and reset) the resolution must still convert every item',
    out='preemption inside the converter lookups made while the references are re-pointed (TypeRegistry.resolve under 2 preemptions '
        'is beyond the budget: 1651 schedules explored in 1200 s without closing) -- the seeded change C20-E lives there and is not detected')
def local_class_items(V):
    d = {'lines': [{'v': 5}, {'v': '6'}]}
    race(V, build_s3, [lambda ns: dict(ns['Local'](**d)), lambda ns: dict(ns['Local'](**d))], 'local-class-items',
         watched=ITEMS_WATCHED, preemptions=2)


@ob('first-parse/function', marks=['preempted'], budget=(240, 900), per_path=(30, 60),
    bounds='two threads make the first call of a decorated function whose parameter, default and return annotations are forward '
           'references to a class defined later; solver-picked valid / invalid arguments; same bounds')
def function(V):
    calls = [({'v': 1}, None), ({'v': 'x'}, None), ({'v': 2}, {'v': 3}), ({'v': 0}, {'v': -1})]
    i, j = V.pick('c0', [0, 1, 2, 3] if V.thorough else [2]), V.pick('c1', [0, 1, 2] if V.thorough else [1])
    race(V, build_s3, [lambda ns, c=calls[i]: dict(ns['fn'](c[0], c[1])), lambda ns, c=calls[j]: dict(ns['fn'](c[0], c[1]))], 'function')


# ------------------------------------------------------------------ s2: conversions racing with the shared converter registry
def build_s2():
    class Money:
        def __init__(self, v):
            self.v = v

    class Euro(Money):
        pass

    class Other:
        def __init__(self, v):
            self.v = v
    return {'Money': Money, 'Euro': Euro, 'Other': Other, 'snap': list(TypeTransformer.registry._registry)}


def _restore(ns):
    TypeTransformer.registry._registry[:] = ns['snap']
    TypeTransformer.registry._cache.clear()


def reg_and_convert(ns, cls_name, tag):
    cls = ns[cls_name]

    def conv(transformer, data, t, _tag=tag):
        return t((_tag, data))
    utype.register_transformer(cls)(conv)
    return utype.type_transform(5, cls).v


def convert_builtin(ns):
    # conversions that go through the shared registry and its cache while it is being changed
    return [utype.type_transform('5', int), utype.type_transform(['1', 2], utype.Rule.parse_annotation(__import__('typing').List[int])),
            utype.type_transform('2020-01-02', __import__('datetime').date).isoformat()]


@ob('registry/register-vs-convert', marks=['preempted'], budget=(240, 900), per_path=(30, 60),
    bounds='thread 0 registers a converter for a fresh class and converts with it, thread 1 converts builtin types (int, List[int], '
           'date) through the same shared registry and cache; two threads each registering their own class and converting; a converter '
           'replaced while another thread converts to that type (later conversions must use the new one); '
           'every schedule with at most 1 preemption (2 thorough) plus the free hand-over when a thread finishes at watched lines of TypeRegistry.register / resolve')
def register_vs_convert(V):
    variant = V.pick('variant', ['register-vs-builtin', 'register-vs-register', 'register-base-vs-convert-subclass', 'override-vs-convert'])
    try:
        if variant == 'override-vs-convert':
            # a converter is replaced at run time while another thread converts to that type: the racing conversion may see
            # either converter, every conversion after register() returned sees the new one
            filled = V.bool('cache_filled')

            def build_o():
                ns = build_s2()

                def conv(transformer, data, t):
                    return t(('old', data))
                utype.register_transformer(ns['Money'])(conv)
                if filled:
                    utype.type_transform(1, ns['Money'])          # (fills the cache)
                return ns

            def use(ns):
                return utype.type_transform(5, ns['Money']).v
            with V.notrace():
                c = build_o()
            thunks = [lambda: outcome(lambda: reg_and_convert(c, 'Money', 'new')), lambda: outcome(lambda: use(c))]
            results, trace = sched.run_schedule(V, thunks, WATCHED, V.T(1, 2))
            got = tuple(r[1] if r and r[0] == 'ok' else ('crash', repr(r)) for r in results)
            post = outcome(lambda: use(c))
            _restore(c)
            V.check(got[0] == ('ok', ('new', 5)) and got[1] in (('ok', ('old', 5)), ('ok', ('new', 5))), 'concurrent:registry:not-linearizable',
                    lambda: 'schedule %r: got %r' % (trace, got))
            V.check(post == ('ok', ('new', 5)), 'concurrent:registry:stale-after-register',
                    lambda: 'schedule %r: a conversion made after register() returned and both threads finished gives %r (threads: %r)' % (trace, post, got))
            V.cover('preempted' if any(t[0] == 'preempt' for t in trace) else 'sequential')
        elif variant == 'register-vs-builtin':
            race(V, build_s2, [lambda ns: reg_and_convert(ns, 'Money', 'm'), convert_builtin], 'registry')
        elif variant == 'register-vs-register':
            race(V, build_s2, [lambda ns: reg_and_convert(ns, 'Money', 'm'), lambda ns: reg_and_convert(ns, 'Other', 'o')], 'registry',
                 post=(lambda ns: [utype.type_transform(5, ns['Money']).v, utype.type_transform(5, ns['Other']).v],
                       ('ok', [('m', 5), ('o', 5)])))
        else:
            def sub(ns):
                try:
                    return utype.type_transform(5, ns['Euro']).v
                except Exception as e:  # noqa  (unregistered class: unresolved type)
                    return 'unresolved:' + type(e).__name__

            def build():
                ns = build_s2()
                return ns
            # the subclass conversion legitimately depends on whether the registration happened before it:
            # both sequential orders are acceptable outcomes
            with V.notrace():
                a, b, c = build(), build(), build()
            first = (outcome(lambda: reg_and_convert(a, 'Money', 'm')), outcome(lambda: sub(a)))
            post_want = outcome(lambda: sub(a))
            _restore(a)
            second_sub = outcome(lambda: sub(b))
            second = (outcome(lambda: reg_and_convert(b, 'Money', 'm')), second_sub)
            _restore(b)
            thunks = [lambda: outcome(lambda: reg_and_convert(c, 'Money', 'm')), lambda: outcome(lambda: sub(c))]
            results, trace = sched.run_schedule(V, thunks, WATCHED, V.T(1, 2))
            got = tuple(r[1] if r and r[0] == 'ok' else ('crash', repr(r)) for r in results)
            post = outcome(lambda: sub(c))
            _restore(c)
            # once register() has returned, every later conversion is served by the new converter, whatever raced with it
            V.check(post == post_want, 'concurrent:registry:stale-after-register',
                    lambda: 'schedule %r: a conversion made after both threads finished returns %r, after a sequential run %r' % (trace, post, post_want))
            V.check(got in (first, second), 'concurrent:registry:not-linearizable',
                    lambda: 'schedule %r: got %r, sequential orders give %r or %r' % (trace, got, first, second))
            V.cover('preempted' if any(t[0] == 'preempt' for t in trace) else 'sequential')
    finally:
        TypeTransformer.registry._registry[:] = [r for r in TypeTransformer.registry._registry
                                                 if getattr(r[1], '__name__', '') != 'conv']
        TypeTransformer.registry._cache.clear()
