"""C04 -- invalid input raises ParseError and nothing else; parsing always terminates"""
import collections
import os
import subprocess
import sys
import uuid
from datetime import date, datetime, time, timedelta
from decimal import Decimal
from enum import Enum
from typing import Dict, FrozenSet, List, Optional, Set, Tuple, Union

import utype
from utype import Field, Lax, Options, Rule, Schema, exc, types
from utype.parser.rule import LogicalType
from vt.ob import ob

PROP = 'C04'
ASSUMPTIONS = [
    'scope as stated by the property: constrained and logical types (Rule subclasses, unions, ...), data classes and '
    'decorated functions; bare type_transform(x, builtin) re-raises the converter\'s TypeError/ValueError by design and is '
    'not covered',
    'exceptions raised by user code (default_factory, property bodies) and resource exhaustion (MemoryError) are out of scope; '
    'RecursionError is an Exception and is in scope',
    'termination: every path of every obligation runs under an alarm; a call that does not return is replayed on the '
    'unmodified library under an 8 s watchdog before it is reported; the float normalisation loops are additionally '
    'encoded from their AST in QF_FP (vt/loopsmt.py)',
]


from vt.values import Color, Inner  # noqa


class Outer(Schema):
    inner: Inner
    kids: List[Inner] = Field(default_factory=list)
    opt: Optional[int] = None
    tags: Set[int] = Field(default_factory=set)
    pair: Tuple[int, str] = (0, '')
    m: Dict[str, int] = Field(default_factory=dict)


class Strict(Schema):
    __options__ = Options(no_explicit_cast=True, no_data_loss=True, addition=False)
    a: int
    b: List[int] = Field(default_factory=list)


class Collecting(Schema):
    __options__ = Options(collect_errors=True, addition=False)
    a: types.PositiveInt
    b: Tuple[int, str] = (0, '')
    c: Set[int] = Field(default_factory=set)
    d: Dict[int, List[int]] = Field(default_factory=dict)


def ann(t):
    return Rule.parse_annotation(t)


TYPES = {
    'int': Rule.annotate(int), 'float': Rule.annotate(float), 'str': Rule.annotate(str), 'bool': Rule.annotate(bool),
    'none': Rule.annotate(type(None)), 'bytes': Rule.annotate(bytes), 'decimal': Rule.annotate(Decimal),
    'list': Rule.annotate(list), 'tuple': Rule.annotate(tuple), 'set': Rule.annotate(set),
    'frozenset': Rule.annotate(frozenset), 'dict': Rule.annotate(dict),
    'date': Rule.annotate(date), 'datetime': Rule.annotate(datetime), 'time': Rule.annotate(time),
    'timedelta': Rule.annotate(timedelta), 'uuid': Rule.annotate(uuid.UUID), 'enum': Rule.annotate(Color),
    'PositiveInt': types.PositiveInt, 'Str': types.Str, 'Array': types.Array, 'Object': types.Object,
    'Year': types.Year, 'Timestamp': types.Timestamp, 'Datetime': types.Datetime,
    'EmailStr': types.EmailStr, 'SlugStr': types.SlugStr,
    'IntLt': Rule.annotate(int, constraints={'lt': 10, 'multiple_of': 2}),
    'StrLen': Rule.annotate(str, constraints={'max_length': 3, 'regex': '[a-z]*'}),
    'DecDigits': Rule.annotate(Decimal, constraints={'max_digits': 4, 'decimal_places': 2}),
    'LaxDigitsFloat': Rule.annotate(float, constraints={'max_digits': Lax(4)}), 'LaxDigitsDec': Rule.annotate(Decimal, constraints={'max_digits': Lax(3)}),
    'LaxPlacesFloat': Rule.annotate(float, constraints={'decimal_places': Lax(1)}), 'LaxMultiple': Rule.annotate(int, constraints={'multiple_of': Lax(3)}),
    'LaxLenStr': Rule.annotate(str, constraints={'max_length': Lax(2)}),
    'UniqueList': Rule.annotate(list, constraints={'unique_items': True, 'max_length': 3}),
    'Contains': Rule.annotate(list, constraints={'contains': types.PositiveInt, 'max_contains': 1}),
    'List[int]': ann(List[int]), 'Set[int]': ann(Set[int]), 'FrozenSet[int]': ann(FrozenSet[int]),
    'Tuple[int,str]': ann(Tuple[int, str]), 'Tuple[int,...]': ann(Tuple[int, ...]), 'Dict[str,int]': ann(Dict[str, int]),
    'Dict[int,List[int]]': ann(Dict[int, List[int]]), 'List[List[int]]': ann(List[List[int]]),
    'List[Optional[int]]': ann(List[Optional[int]]), 'List[Inner]': ann(List[Inner]),
    'int|None': ann(Optional[int]), 'int|str': ann(Union[int, str]), 'int|List[int]': ann(Union[int, List[int]]),
    'Pos^Neg': types.PositiveInt ^ types.NegativeInt, 'Float&~Zero': types.Float & ~Rule.annotate(float, constraints={'const': 0.0}),
    'date|datetime': ann(Union[date, datetime]), 'Inner|int': ann(Union[Inner, int]),
    'int&Pos': LogicalType.all_of(int, types.PositiveInt), 'int^str': LogicalType.one_of(int, str), '~int': LogicalType.not_of(int),
    'str&~None': LogicalType.all_of(str, LogicalType.not_of(type(None))), 'ContainsInt': Rule.annotate(list, constraints={'contains': int}),
    'Inner': Inner, 'Outer': Outer, 'Strict': Strict, 'Collecting': Collecting,
}
for _n, _t in list(TYPES.items()):
    if not isinstance(_t, type) and not callable(_t):
        raise RuntimeError('bad type table entry ' + _n)

GROUPS = {
    'scalar': ['int', 'float', 'str', 'bool', 'none', 'bytes', 'decimal', 'enum', 'uuid'],
    'temporal': ['date', 'datetime', 'time', 'timedelta', 'Year', 'Timestamp', 'Datetime', 'date|datetime'],
    'constrained': ['PositiveInt', 'Str', 'IntLt', 'StrLen', 'DecDigits', 'EmailStr', 'SlugStr', 'UniqueList', 'Contains'],
    'lax': ['LaxDigitsFloat', 'LaxDigitsDec', 'LaxPlacesFloat', 'LaxMultiple', 'LaxLenStr'],
    'plain-container': ['list', 'tuple', 'set', 'frozenset', 'dict', 'Array', 'Object'],
    'generic': ['List[int]', 'Set[int]', 'FrozenSet[int]', 'Tuple[int,str]', 'Tuple[int,...]', 'Dict[str,int]'],
    'nested-generic': ['Dict[int,List[int]]', 'List[List[int]]', 'List[Optional[int]]', 'List[Inner]'],
    'logical': ['int|None', 'int|str', 'int|List[int]', 'Pos^Neg', 'Float&~Zero', 'Inner|int'],
    'logical-raw': ['int&Pos', 'int^str', '~int', 'str&~None', 'ContainsInt'],
    'dataclass': ['Inner', 'Outer', 'Strict', 'Collecting'],
}

from vt.values import (BYTES, FLOATS, INTS, N_HOSTILE, V_NUM, V_STRUCT, V_TIME, atom, hostile, small_atom, value)  # noqa


def call_checked(V, label, fn, *a, **k):
    """anything that leaves the call must be a ParseError"""
    try:
        r = fn(*a, **k)
    except exc.ParseError as e:
        V.check(isinstance(e, TypeError) and isinstance(e, ValueError), 'totality:parse-error-hierarchy', lambda: repr(e))
        V.cover('reject')
        return ('err', e)
    except Exception as e:  # noqa  (BaseExceptions of the engine propagate)
        V.fail('totality:%s:%s' % (label, type(e).__name__), '%s raised %s: %s' % (label, type(e).__name__, str(e)[:200]))
    V.cover('accept')
    return ('ok', r)


def _totality(V, group):
    name = V.pick('T', GROUPS[group])
    T = TYPES[name]
    x = value(V, sym_int=group in ('scalar', 'constrained', 'generic', 'plain-container', 'dataclass'))
    if group == 'dataclass' and V.bool('reserved_key'):
        # an input key that spells a parameter of the generated __init__(_obj_self, _d=None, **kwargs)
        k = V.pick('reserved', ['_obj_self', '_d', 'self'])
        r = call_checked(V, name + ':reserved-init-parameter-name', T.__from__, {k: V.pick('reserved_value', [1, {'x': 1}])})
        return
    if group == 'dataclass':
        if isinstance(x, dict) and all(isinstance(k, str) for k in x) and V.bool('as_kwargs'):
            # (Python itself refuses non-string keywords before utype is involved)
            call_checked(V, name + '(**data)', T, **x)
            return
        if V.bool('positional'):
            # the data handed to the constructor as its positional argument, whatever it is
            call_checked(V, name + '(data)', T, x)
            return
        call_checked(V, name + '.__from__', T.__from__, x)
    else:
        call_checked(V, name, T, x)


for _g in GROUPS:
    ob('totality/' + _g, marks=['accept', 'reject'], budget=(70, 600), per_path=(10, 20), exhaustive=False,
       bounds='T in {%s}; x = solver int in -1000..1000 or one of 12 picked ints (up to 1e20) | bool | None | float from %d special values | %d numeric / %d structured / '
              '%d temporal vocabulary strings | symbolic str (<= 2 chars) | %d bytes-likes | %d hostile objects (object(), a '
              'class, iterators, Decimal Infinity/NaN/sNaN, 10**400, deque, Ellipsis, objects whose __str__ raises, ...) | '
              'list / tuple / set / deque / iterator of <= 3 and dict of <= 2 such elements' % (
                  ', '.join(GROUPS[_g]), len(FLOATS), len(V_NUM), len(V_STRUCT), len(V_TIME), len(BYTES), N_HOSTILE),
       out='text parsing beyond the vocabularies; the trees of these obligations are not expected to close within the '
           'budget: solver-driven exploration, every path replayed concretely (bug-hunting strength, stated)')(
        (lambda g: lambda V: _totality(V, g))(_g))


# ------------------------------------------------------------------ structural cases the suite never pairs
CONTAINERS = {
    'Set[int]': ann(Set[int]), 'FrozenSet[int]': ann(FrozenSet[int]), 'List[int]': ann(List[int]),
    'Tuple[int,str]': ann(Tuple[int, str]), 'Tuple[int,...]': ann(Tuple[int, ...]), 'Dict[int,int]': ann(Dict[int, int]),
    'Dict[str,List[int]]': ann(Dict[str, List[int]]),
}


def _structural(V, name):
    T = CONTAINERS[name]
    o = {}
    if V.bool('collect_errors'):
        o['collect_errors'] = True
        cap = V.pick('max_errors', [None, 1])
        if cap:
            o['max_errors'] = cap
    for pol in ('invalid_items', 'invalid_keys', 'invalid_values'):
        if name.startswith('Dict') == (pol != 'invalid_items') or pol == 'invalid_items' and 'List' in name:
            p = V.pick(pol, ['throw', 'exclude', 'preserve'])
            if p != 'throw':
                o[pol] = p
    if V.bool('ignore_constraints'):
        o['ignore_constraints'] = True
    flags = V.pick('flags', ['none', 'no_data_loss', 'no_explicit_cast', 'both'])
    if flags in ('no_data_loss', 'both'):
        o['no_data_loss'] = True
    if flags in ('no_explicit_cast', 'both'):
        o['no_explicit_cast'] = True
    shape = V.pick('shape', ['list', 'tuple', 'set', 'frozenset', 'deque', 'iter', 'dict', 'str'])
    n = V.pick('n', [0, 1, 2, 3])
    if shape == 'str':
        x = V.pick('text', ['1,2', '[1,"x"]', '{"1": "x"}', 'x', '', '1;x', '(1,2,3)'])
    elif shape == 'dict':
        x = {}
        for i in range(min(n, 2)):
            x[V.pick('key%d' % i, [1, '2', 'x', None, (1,)])] = small_atom(V, 'v%d' % i)
    else:
        xs = [small_atom(V, 'e%d' % i) for i in range(n)]
        try:
            x = {'list': list, 'tuple': tuple, 'set': set, 'frozenset': frozenset, 'deque': collections.deque,
                 'iter': iter}[shape](xs)
        except TypeError:
            x = xs
    from utype.utils.transform import type_transform
    n_in = len(x) if isinstance(x, (list, tuple)) else None      # (a deque is not one of the library's sequence kinds: it is converted as a scalar)
    r = call_checked(V, '%s %r' % (name, o), type_transform, x, T, Options(**o))
    if r[0] == 'ok' and n_in is not None and name in ('List[int]', 'Tuple[int,...]') and 'invalid_items' not in o:
        # without an exclude policy a sequence result has one element per input element: a failure can not vanish
        V.check(len(r[1]) == n_in, 'totality:failing-element-vanished',
                lambda: '%s %r: input %r -> %r' % (name, o, x, r[1]))


for _n in CONTAINERS:
    ob('structural/' + _n, marks=['accept', 'reject'], budget=(60, 600), per_path=(10, 20), exhaustive=False,
       bounds='%s under solver-picked collect_errors / max_errors / invalid_* policies / ignore_constraints / no_data_loss / no_explicit_cast; '
              'input = list | tuple | set | frozenset | deque | iterator of <= 3 elements, dict of <= 2 entries (keys incl. '
              'None and a tuple) or a structured string; elements solver int -3..3 | "x" | None | numeric strings | lists | '
              'dicts | hostile objects' % _n,
       out='as totality/*')((lambda n: lambda V: _structural(V, n))(_n))


# ------------------------------------------------------------------ no instance / body not entered on failure
ENTERED = []


class Flagged(Schema):
    a: types.PositiveInt
    b: List[int] = Field(default_factory=list)

    def __validate__(self):
        ENTERED.append('validate')


@utype.parse
def flagged_fn(a: types.PositiveInt, b: List[int] = None, *rest: int, k: Optional[str] = None, **kw: int) -> types.PositiveInt:
    ENTERED.append('body')
    return a


@utype.parse(options=Options(collect_errors=True))
def flagged_fn_collect(a: types.PositiveInt, b: List[int] = None, *rest: int, k: Optional[str] = None, **kw: int) -> types.PositiveInt:
    ENTERED.append('body')
    return a


class FlaggedAdd(Schema):
    __options__ = Options(collect_errors=True, addition=int)
    a: types.PositiveInt
    b: List[int] = Field(default_factory=list)

    def __validate__(self):
        ENTERED.append('validate')


@ob('no-entry-on-failure', marks=['accept', 'reject'], budget=(60, 300), exhaustive=False,
    bounds='Schema with __validate__ and @parse function (a: PositiveInt, b: List[int], *rest: int, k: Optional[str], '
           '**kw: int) -> PositiveInt (also under collect_errors, and a Schema with addition=int), arguments from the totality value generator: when the call fails because of a '
           'parameter the body / __validate__ has not run, and nothing but ParseError escapes')
def no_entry(V):
    which = V.pick('target', ['schema', 'function', 'schema-collect-addition', 'function-collect'])
    a = atom(V, 'a')
    del ENTERED[:]
    kwargs = {}
    if V.bool('has_b'):
        kwargs['b'] = V.pick('b', [[1], ['x'], 'x', None, [[1]], '1,2', {1}, 5])
    if which.startswith('schema'):
        cls = Flagged if which == 'schema' else FlaggedAdd
        bad_extra = False
        if cls is FlaggedAdd and V.bool('has_extra'):
            kwargs['zz'] = V.pick('zz', [1, '5', 'x', None, ['x', 'y']])
            bad_extra = kwargs['zz'] in ('x', ['x', 'y'])
        r = call_checked(V, cls.__name__, cls, a=a, **kwargs)
        if r[0] == 'err':
            V.check(not ENTERED, 'entry:validate-ran-on-failure', lambda: '%s(a=%r, **%r) failed but __validate__ ran' % (cls.__name__, a, kwargs))
        elif bad_extra:
            V.fail('entry:instance-created-with-invalid-extra', '%s(a=%r, **%r) -> %r' % (cls.__name__, a, kwargs, dict(r[1])))
        return
    rest = []
    if 'b' in kwargs and V.bool('has_rest'):
        rest = [V.pick('rest0', [1, 'x', None, '5'])]
        args = (a, kwargs.pop('b')) + tuple(rest)
    else:
        args = (a,)
    if V.bool('has_k'):
        kwargs['k'] = V.pick('k', ['s', 5, None, ['x'], object])
    bad_extra = False
    if V.bool('has_extra'):
        kwargs['zz'] = V.pick('zz', [1, 'x', None, ['x', 'y']])
        bad_extra = kwargs['zz'] in ('x', ['x', 'y'])
    fn = flagged_fn if which == 'function' else flagged_fn_collect
    r = call_checked(V, fn.__name__, fn, *args, **kwargs)
    if r[0] == 'err':
        V.check(not ENTERED, 'entry:body-ran-on-failure', lambda: '%s(*%r, **%r) failed but the body ran' % (fn.__name__, args, kwargs))
    elif bad_extra:
        V.fail('entry:body-ran-with-invalid-extra', '%s(*%r, **%r) ran its body (returned %r)' % (fn.__name__, args, kwargs, r[1]))


# ------------------------------------------------------------------ termination of the numeric normalisation loops
TERM_TARGETS = [('datetime', TYPES['datetime']), ('date', TYPES['date']), ('Timestamp', TYPES['Timestamp']),
                ('Datetime', TYPES['Datetime']), ('date|datetime', TYPES['date|datetime'])]


@ob('termination/number', marks=['accept', 'reject'], budget=(40, 200), per_path=(5, 10), exhaustive=False,
    bounds='temporal targets {datetime, date, Timestamp, Datetime, date|datetime}; x = CrossHair float ({nan, +inf, -inf} '
           'U reals) -- every call runs under an alarm and is replayed under a watchdog',
    out='IEEE rounding is not modelled here (it is in the QF_FP encoding of the loops, loopsmt/*)')
def termination_number(V):
    x = V.float('x')
    name, T = TERM_TARGETS[V.pick('target', list(range(len(TERM_TARGETS))))]
    call_checked(V, name, T, x)


@ob('termination/special', marks=['accept', 'reject'], budget=(60, 200),
    bounds='the same targets; x picked from float / Decimal / int / str spellings of infinities, NaNs, huge and tiny '
           'magnitudes')
def termination_special(V):
    x = V.pick('x', [float('inf'), float('-inf'), float('nan'), 'inf', '-inf', 'nan', 'Infinity', '1e400', '-1e400',
                     b'inf', Decimal('Infinity'), Decimal('-Infinity'), Decimal('NaN'), Decimal('1E+400'), 10 ** 400,
                     -10 ** 30, 1e308, '1e308', 2e10, 2e10 + 1, Decimal('2e10'), [float('inf')], ' inf ', '∞'])
    name, T = TERM_TARGETS[V.pick('target', list(range(len(TERM_TARGETS))))]
    call_checked(V, name, T, x)


REGEX_TYPES = {'SlugStr': types.SlugStr, 'EmailStr': types.EmailStr}
for _n in dir(types):
    _t = getattr(types, _n)
    if isinstance(_t, type) and isinstance(getattr(_t, 'regex', None), str) and _n not in REGEX_TYPES:
        REGEX_TYPES[_n] = _t
LONG_RUNS = ['a' * 48 + '!', 'a-' * 24 + '!', 'a.' * 24 + '@', 'a' * 40 + '@' + 'b' * 40, 'a-b_c.' * 8 + '@x', '-' * 48 + 'a!', 'a' * 48 + '/',
             '1' * 48 + 'x', 'a@' + 'b.' * 24, 'a@b.' + 'c' * 48 + '1', ('a' * 10 + '-') * 5 + '_', 'a' * 48]


@ob('termination/regex-types', marks=['accept', 'reject'], budget=(60, 200),
    bounds='every type of utype.types that is defined by a regular expression (%s); x picked from %d long runs (40..96 characters of the '
           'pattern alphabet that become invalid only at their end, the inputs on which nested quantifiers backtrack): the call returns or '
           'raises ParseError (a match that does not come back is a hang, confirmed by the 20 s replay)' % (sorted(REGEX_TYPES), len(LONG_RUNS)))
def termination_regex_types(V):
    name = V.pick('T', sorted(REGEX_TYPES))
    x = V.pick('x', LONG_RUNS)
    call_checked(V, name, REGEX_TYPES[name], x)


LAX_X = [1234.5, 99.99, 9.99, 0.5, 12.3456, 123456.7, 1e-7, 1e22, -99.95, float('inf'), float('nan'), '1234.5', '99.99', '0.000', b'9.96',
         Decimal('1234.5'), Decimal('99.99'), Decimal('9.99E+3'), Decimal('0E-5'), Decimal('-0.995'), Decimal('NaN'), 12345, True, None, 'x']


@ob('termination/lax-digits', marks=['accept', 'reject'], budget=(60, 200),
    bounds='float / Decimal / str(to_float) based rules with max_digits=Lax(n) and/or decimal_places=Lax(m), n in 1..5, m in 0..2, '
           'solver-picked; x picked from %d floats, Decimals and spellings with rounding carries (99.99), integer parts already '
           'at the limit (1234.5), exponents, NaN/inf: the call returns or raises ParseError (a loop that never ends is a hang '
           'and confirmed by the 20 s replay)' % len(LAX_X))
def termination_lax_digits(V):
    base = V.pick('base', ['float', 'Decimal'])
    c = {}
    k = V.pick('constraints', ['digits', 'places', 'both'])
    if k in ('digits', 'both'):
        c['max_digits'] = Lax(V.pick('n', [1, 2, 3, 4, 5]))
    if k in ('places', 'both'):
        c['decimal_places'] = Lax(V.pick('m', [0, 1, 2]))
    with V.notrace():
        try:
            T = Rule.annotate({'float': float, 'Decimal': Decimal}[base], constraints=c)
        except exc.ConfigError:
            # (decimal_places >= max_digits is refused at declaration)
            V.cover('reject')
            return
    x = V.pick('x', LAX_X)
    r = call_checked(V, 'Rule[%s](%r)' % (base, c), T, x)
    if r[0] == 'ok' and 'max_digits' in c and r[1] == r[1] and abs(r[1]) != float('inf'):
        # (a result that still has too many digits is C01's subject; here the call only has to come back)
        pass


def extra_checks(tier, seed):
    """E2: SMT obligations generated from the while loops of utils/transform.py"""
    from vt import loopsmt
    repo = os.environ.get('UTYPE_REPO', '/repo')
    path = os.path.join(repo, 'utype', 'utils', 'transform.py')

    def replay(x):
        code = ('import sys, datetime\nsys.path.insert(0, %r)\nfrom utype import Rule\n'
                'try:\n    Rule.annotate(datetime.datetime)(float(%r))\nexcept Exception:\n    pass\n' % (repo, repr(x)))
        try:
            subprocess.run([sys.executable, '-c', code], timeout=8, stdout=subprocess.DEVNULL, stderr=subprocess.DEVNULL)
            return 'ok'
        except subprocess.TimeoutExpired:
            return 'hang'

    res = loopsmt.check_file(path, replay, rel='utype/utils/transform.py')
    others = []
    for rel in ('utype/parser/rule.py', 'utype/parser/base.py', 'utype/parser/field.py', 'utype/parser/cls.py',
                'utype/parser/options.py', 'utype/parser/func.py'):
        for lineno, fn, spec in loopsmt.find_loops(os.path.join(repo, rel)):
            others.append('%s:%s:%d' % (rel, fn, lineno))
    return {'obligations': res,
            'coverage': {'loops_encoded': [r['id'] for r in res],
                         'loops_not_encoded': others,
                         'loops_not_encoded_reason': 'declaration-time or generator-driver loops (not reachable from a '
                                                     'parse of untrusted input with a data-dependent trip count)'}}


# ------------------------------------------------------------------ decorated functions with aliased parameters
@utype.parse
def aliased_fn(a: int = utype.Param(5, alias='A'), b: int = 0, *, c: int = utype.Param(1, alias_from=['cc'])):
    return a, b, c


@ob('function/aliased-parameters', marks=['accept', 'reject'], budget=(40, 120),
    bounds='def f(a: int = Param(5, alias="A"), b: int = 0, *, c: int = Param(1, alias_from=["cc"])): 0..2 positional arguments and a '
           'solver-chosen subset of the keywords {a, A, b, c, cc}, values "5" | "x": the call returns or raises ParseError '
           '(calls Python itself refuses -- the same parameter by position and by one of its names -- are outside the statement)')
def function_aliased_parameters(V):
    vals = ['5', 'x']
    args = [V.pick('p%d' % i, vals) for i in range(V.pick('n_pos', [0, 1, 2]))]
    kwargs = {}
    for k in ('a', 'A', 'b', 'c', 'cc'):
        if V.bool('kw_' + k):
            kwargs[k] = V.pick('v_' + k, vals)
    if (len(args) >= 1 and ('a' in kwargs or 'A' in kwargs)) or (len(args) >= 2 and 'b' in kwargs):
        return
    call_checked(V, 'aliased_fn', aliased_fn, *args, **kwargs)
