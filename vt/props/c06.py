"""C06 -- the result does not depend on the field-lookup strategy (data-first vs field-first)"""
from vt import dcspec
from vt.dcsym import GROUPS, QUICK, applicable, bounds_text, limit_for, sym_items, sym_options
from vt.ob import ob

PROP = 'C06'
ASSUMPTIONS = [
    "'a failure of the same kind': with fail-fast reporting both strategies must reject, and with collect_errors=True "
    'the sets of (error class, item) collected by the two strategies must be equal (fail-fast may legitimately meet two '
    'simultaneous problems in a different order)',
    'options are declared in the class (__options__), the documented route for every option used here',
]

def outcome_eq(a, b):
    if a[0] != b[0]:
        return False
    if a[0] == 'ok':
        return a[1] == b[1] and a[2] == b[2]
    return True


def _c06(V, spec_id, group, base):
    o = sym_options(V, group)
    ci = bool(o.get('case_insensitive'))
    items = sym_items(V, spec_id, limit=limit_for(V, spec_id, group, wide_alias=True), strs=V.thorough or spec_id != 'onerr')
    with V.notrace():
        cd = dcspec.make_class(spec_id, base, dict(o, data_first_search=True))
        cf = dcspec.make_class(spec_id, base, dict(o, data_first_search=False))
    cls = cd
    d = dcspec.run_impl(cd, items)
    f = dcspec.run_impl(cf, items)
    show = lambda r: (r[0], r[1]) if r[0] != 'ok' else (r[0], r[1], r[2])
    det = lambda: '%s %r options=%r: data-first -> %r ; field-first -> %r' % (cls.__name__, dict(items), o, show(d), show(f))
    V.check(d[0] != 'crash' and f[0] != 'crash', 'strategy:crash', det)
    if d[0] != f[0]:
        V.fail('strategy:verdict:' + _why(spec_id, o, items, d, f, ci), det)
    if d[0] == 'ok':
        V.check(d[1] == f[1] and d[2] == f[2], 'strategy:value:' + _why(spec_id, o, items, d, f, ci), det)
        V.cover('accept')
    else:
        with V.notrace():
            ccd = dcspec.make_class(spec_id, base, dict(o, data_first_search=True, collect_errors=True))
            ccf = dcspec.make_class(spec_id, base, dict(o, data_first_search=False, collect_errors=True))
        dc = dcspec.run_impl(ccd, items)
        fc = dcspec.run_impl(ccf, items)
        detc = lambda: det() + ' ; collected: data-first %r field-first %r' % (show(dc), show(fc))
        V.check(dc[0] == 'err' and fc[0] == 'err', 'strategy:collect-verdict', detc)
        V.check(dc[1] == fc[1], 'strategy:error-kinds:' + _why(spec_id, o, items, dc, fc, ci), detc)
        V.cover('reject')


def _why(spec_id, o, items, d, f, ci=False):
    """coarse cause label used only to key known findings (never to suppress a check): the most specific known cause
    present in the input wins (distinct aliases > one spelling in two cases with an invalid value > two cases, all valid)"""
    spec = dcspec.SPECS[spec_id]
    oo = dict(o, case_insensitive=ci)
    rank = {'several-spellings-differing:distinct-aliases': 4, 'several-spellings-differing:case-only-some-invalid': 3,
            'several-spellings-differing:case-only': 2, 'several-spellings-equal': 1, 'other': 0}
    label = 'other'
    for fl in spec:
        sup = [(k, v) for k, v in items if dcspec.matches(fl, k, oo)]
        vals = [v for k, v in sup]
        if len(vals) > 1:
            if any(a != b for a in vals for b in vals):
                if len({k.lower() for k, v in sup}) == 1:
                    if all(dcspec.conv_int(v, fl['ge'])[0] == 'ok' for v in vals):
                        cand = 'several-spellings-differing:case-only'
                    else:
                        cand = 'several-spellings-differing:case-only-some-invalid'
                else:
                    cand = 'several-spellings-differing:distinct-aliases'
            else:
                cand = 'several-spellings-equal'
            if rank[cand] > rank[label]:
                label = cand
    if label.endswith('distinct-aliases'):
        # with ignore_alias_conflicts the strategies pick different spellings (values and verdicts differ); without it both
        # report the conflict and only the further errors differ: two findings, so that a verdict difference in the
        # second situation is never covered by the first
        label += ':ignored-conflicts' if o.get('ignore_alias_conflicts') else ':reported-conflicts'
    return label


for _spec in dcspec.SPECS:
    for _g in GROUPS:
        if not applicable(_spec, _g):
            continue
        ob('%s/%s' % (_spec, _g),
           marks=['accept', 'reject'] if not (_spec == 'defer' and _g in ('plain', 'defaults', 'alias', 'required')) else ['accept'],
           budget=(60, 400), per_path=(15, 30), thorough_only=_g not in QUICK[_spec], exhaustive=(True, False),
           bounds=bounds_text(_spec, _g, 'Schema') + '; both lookup strategies on the same input',
           out='combinations of option groups; non-int field types; DataClass base (covered by C05); the thorough key vocabulary (7 / 8 keys) is explored within the budget (solver-driven, every path replayed), not exhausted: the exhaustive claim is the quick vocabulary')(
            (lambda s, g: lambda V: _c06(V, s, g, 'Schema'))(_spec, _g))


# ------------------------------------------------------------------ inherited declarations re-declared by a subclass
from utype import Field as _Field, Options as _Options, Schema as _Schema  # noqa: E402


def _mk_inherit(dfs):
    class Base(_Schema):
        __options__ = _Options(data_first_search=dfs)
        name: int = _Field(alias_from=['title'], default=0)
        n: int = _Field(alias_from=['N1'], default=1)
        keep: int = _Field(alias_from=['k'], default=2)

    class Sub(Base):
        __options__ = _Options(data_first_search=dfs)
        name: int = 0                            # drops the alias of the base declaration
        n: int = _Field(alias_from=['N2'], default=1)    # replaces it
    return Sub


INHERIT = {True: _mk_inherit(True), False: _mk_inherit(False)}
INHERIT_KEYS = ['name', 'title', 'n', 'N1', 'N2', 'keep', 'k']


@ob('inheritance/redeclared-aliases', marks=['accept'], budget=(60, 200),
    bounds='a subclass re-declares two inherited fields (dropping an alias_from, replacing one) and keeps a third; input = '
           'solver-chosen subset of %r with solver int values: data-first and field-first give the same outcome (verdict, key view, '
           'attribute view)' % INHERIT_KEYS)
def inheritance_redeclared_aliases(V):
    items = [(k, V.int('v_' + k, -3, 3)) for k in INHERIT_KEYS if V.bool('has_' + k)]
    d = dcspec.run_impl(INHERIT[True], items)
    f = dcspec.run_impl(INHERIT[False], items)
    show = lambda r: (r[0], r[1]) if r[0] != 'ok' else (r[0], r[1], r[2])
    det = lambda: 'Sub %r: data-first -> %r ; field-first -> %r' % (dict(items), show(d), show(f))
    V.check(d[0] != 'crash' and f[0] != 'crash', 'strategy:crash', det)
    V.check(d[0] == f[0], 'strategy:verdict:inherited-declaration', det)
    if d[0] == 'ok':
        V.check(d[1] == f[1] and d[2] == f[2], 'strategy:value:inherited-declaration', det)
        V.cover('accept')
    else:
        V.check(d[1] == f[1], 'strategy:error-kinds:inherited-declaration', det)


# ------------------------------------------------------------------ decorated functions (results keyed by attribute name)
import utype as _utype  # noqa: E402
from utype import exc  # noqa: E402


def _mk_charge(dfs):
    @_utype.parse(options=_Options(data_first_search=dfs))
    def charge(card: int = _utype.Param(None, dependencies=['billing']), billing: int = _utype.Param(None, alias='billingAddress'),
               note: int = _utype.Param(0, alias_from=['n']), zip_code: int = _utype.Param(None, alias='zip', dependencies=['billing'])):
        return dict(card=card, billing=billing, note=note, zip_code=zip_code)
    return charge


CHARGE = {True: _mk_charge(True), False: _mk_charge(False)}
CHARGE_KEYS = ['card', 'billing', 'billingAddress', 'note', 'n', 'zip', 'zip_code']


@ob('function/dependencies-and-aliases', marks=['accept', 'reject'], budget=(60, 200),
    bounds='@parse function whose parameters have dependencies on an aliased parameter, an alias_from spelling and an aliased dependant; '
           'keyword arguments = solver-chosen subset of %r with solver ints | "x": both lookup strategies give the same outcome (the '
           'arguments the body receives, or the same error kinds)' % CHARGE_KEYS)
def function_dependencies_and_aliases(V):
    kwargs = {}
    for k in CHARGE_KEYS:
        if V.bool('has_' + k):
            kwargs[k] = V.int('v_' + k, -3, 3) if V.bool('int_' + k) else 'x'

    if any(a in kwargs and b in kwargs for a, b in (('note', 'n'), ('billing', 'billingAddress'), ('zip', 'zip_code'))):
        return      # two spellings of one parameter: the alias-conflict findings of the data-class obligations

    def run(fn):
        try:
            return ('ok', fn(**kwargs))
        except exc.ParseError as e:
            return ('err', sorted(dcspec.err_kinds(e)))
        except Exception as e:  # noqa
            return ('crash', type(e).__name__, str(e)[:80])
    d, f = run(CHARGE[True]), run(CHARGE[False])
    det = lambda: 'charge(**%r): data-first -> %r ; field-first -> %r' % (kwargs, d, f)
    V.check(d[0] == f[0], 'strategy:verdict:function', det)
    V.check(d == f or d[0] == 'crash', 'strategy:value:function', det)
    V.cover('accept' if d[0] == 'ok' else 'reject')
