"""C06 -- the result does not depend on the field-lookup strategy (data-first vs field-first)"""
from vt import dcspec
from vt.ob import ob

PROP = 'C06'
ASSUMPTIONS = [
    "'a failure of the same kind': with fail-fast reporting both strategies must reject, and with collect_errors=True "
    'the sets of (error class, item) collected by the two strategies must be equal (fail-fast may legitimately meet two '
    'simultaneous problems in a different order)',
    'options are passed at run time through cls.__from__(data, options=Options(...)), the documented route; '
    'case_insensitive (fixed at declaration time) is given in the class options',
]

GROUPS = {
    'plain': [],
    'required': ['ignore_required', 'no_default'],
    'defaults': ['force_default', 'defer_default'],
    'alias': ['ignore_alias_conflicts'],
    'addition': ['addition', 'params'],
    'mode': ['mode'],
    'policy': ['invalid_values'],
}


def sym_options(V, group):
    o = {}
    for g in GROUPS[group]:
        if g in ('ignore_required', 'no_default', 'defer_default', 'ignore_alias_conflicts'):
            if V.bool(g):
                o[g] = True
        elif g == 'force_default':
            if V.bool(g):
                o[g] = 0
        elif g == 'addition':
            a = V.pick('addition', [None, True, False, int])
            if a is not None:
                o['addition'] = a
        elif g == 'params':
            if V.bool('has_max'):
                o['max_params'] = V.int('max_params', 1, 4)
            if V.bool('has_min'):
                o['min_params'] = V.int('min_params', 1, 4)
        elif g == 'mode':
            m = V.pick('mode', [None, 'r', 'w', 'a'])
            if m:
                o['mode'] = m
        elif g == 'invalid_values':
            p = V.pick('invalid_values', ['throw', 'exclude', 'preserve'])
            if p != 'throw':
                o['invalid_values'] = p
    return o


def sym_items(V, spec_id, limit=None, strs=True):
    """solver-chosen ordered input mapping over the key vocabulary of the declaration"""
    keys = dcspec.key_vocab(spec_id, limit)
    items = []
    for k in keys:
        if V.bool('has_' + k):
            items.append([k, None])
    # at most one present key (the first or the last one) carries a string instead of an int
    odd = V.pick('odd', ['none', 'first', 'last']) if strs and items else 'none'
    for i, it in enumerate(items):
        if (odd == 'first' and i == 0) or (odd == 'last' and i == len(items) - 1 and (i > 0 or odd == 'last')):
            it[1] = V.pick('str_' + it[0], ['x', '5'])
        else:
            it[1] = V.int('v_' + it[0])
    items = [tuple(it) for it in items]
    spec = dcspec.SPECS[spec_id]
    twice = any(sum(1 for k, v in items if dcspec.matches(f, k, {'case_insensitive': True})) > 1 for f in spec)
    if twice and V.bool('reversed'):
        items.reverse()
    return items


def outcome_eq(a, b):
    if a[0] != b[0]:
        return False
    if a[0] == 'ok':
        return a[1] == b[1] and a[2] == b[2]
    return True


def _c06(V, spec_id, group, base):
    ci = V.bool('class_case_insensitive') if group == 'alias' else False
    cls = dcspec.make_class(spec_id, base, {'case_insensitive': True} if ci else None)
    o = sym_options(V, group)
    items = sym_items(V, spec_id, limit=V.T(5 if spec_id == 'onerr' else 6, 9), strs=V.thorough or spec_id != 'onerr')
    d = dcspec.run_impl(cls, items, dict(o, data_first_search=True))
    f = dcspec.run_impl(cls, items, dict(o, data_first_search=False))
    show = lambda r: (r[0], r[1]) if r[0] != 'ok' else (r[0], r[1], r[2])
    det = lambda: '%s %r options=%r: data-first -> %r ; field-first -> %r' % (cls.__name__, dict(items), o, show(d), show(f))
    V.check(d[0] != 'crash' and f[0] != 'crash', 'strategy:crash', det)
    if d[0] != f[0]:
        V.fail('strategy:verdict:' + _why(spec_id, o, items, d, f, ci), det)
    if d[0] == 'ok':
        V.check(d[1] == f[1] and d[2] == f[2], 'strategy:value:' + _why(spec_id, o, items, d, f, ci), det)
        V.cover('accept')
    else:
        dc = dcspec.run_impl(cls, items, dict(o, data_first_search=True, collect_errors=True))
        fc = dcspec.run_impl(cls, items, dict(o, data_first_search=False, collect_errors=True))
        detc = lambda: det() + ' ; collected: data-first %r field-first %r' % (show(dc), show(fc))
        V.check(dc[0] == 'err' and fc[0] == 'err', 'strategy:collect-verdict', detc)
        V.check(dc[1] == fc[1], 'strategy:error-kinds:' + _why(spec_id, o, items, dc, fc, ci), detc)
        V.cover('reject')


def _why(spec_id, o, items, d, f, ci=False):
    """coarse cause label used only to key known findings (never to suppress a check)"""
    spec = dcspec.SPECS[spec_id]
    oo = dict(o, case_insensitive=ci)
    label = None
    for fl in spec:
        vals = [v for k, v in items if dcspec.matches(fl, k, oo)]
        if len(vals) > 1:
            if any(a != b for a in vals for b in vals):
                return 'several-spellings-differing'
            label = 'several-spellings-equal'
    return label or 'other'


QUICK = {
    'basic': ['plain', 'required', 'defaults', 'addition', 'policy'],
    'alias': ['plain', 'alias', 'addition'],
    'case': ['plain', 'alias', 'required'],
    'io': ['plain', 'mode', 'defaults', 'required'],
    'mode': ['mode', 'required'],
    'deps': ['plain', 'required', 'alias'],
    'onerr': ['plain', 'policy', 'required', 'defaults'],
    'defer': ['plain', 'defaults', 'required'],
    'mix': list(GROUPS),
}

for _spec in dcspec.SPECS:
    for _g in GROUPS:
        if _g == 'mode' and _spec not in ('mode', 'io', 'mix'):
            continue
        if _g == 'policy' and _spec not in ('onerr', 'basic', 'mix'):
            continue
        ob('%s/%s' % (_spec, _g), marks=['accept', 'reject'] if not (_spec == 'defer' and _g in ('plain', 'defaults', 'alias', 'required')) else ['accept'],
           budget=(60, 400), per_path=(15, 30), thorough_only=_g not in QUICK[_spec],
           bounds='declaration %r (fields %s) as a Schema; input = solver-chosen subset (and order: as listed or reversed) of '
                  'the key vocabulary [every accepted spelling, one case variant per field, one unknown key; 6 keys quick (declaration onerr: 5 keys, invalid values are negative ints only), 9 '
                  'thorough] with unbounded symbolic int values and at most one key (the first or last present) carrying "x" (invalid) or "5" '
                  '(convertible); option group %r symbolic: %s' % (
                      _spec, ', '.join(f['name'] for f in dcspec.SPECS[_spec]), _g, GROUPS[_g] or 'none'),
           out='combinations of option groups (thorough tier adds DataClass base); non-int field types')(
            (lambda s, g: lambda V: _c06(V, s, g, 'Schema'))(_spec, _g))
