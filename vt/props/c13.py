"""C13 -- the generated JSON Schema is valid and describes what the parser does"""
import json

from typing import Dict, List, Optional, Tuple, Union

from utype import Field, JsonSchemaGenerator, Options, Rule, Schema, exc, types
from utype.utils.encode import JSONEncoder
from utype.utils.transform import type_transform
from vt import dcspec, minijs
from vt import typedesc as td
from vt.conv import I, S, real
from vt.ob import ob
from vt.values import value

PROP = 'C13'
ASSUMPTIONS = [
    'validity of the emitted document against the draft 2020-12 metaschema is checked with the jsonschema library in the '
    'concrete replay of every path: a concrete side condition, not a solver claim',
    'instances are validated by vt/minijs.py (traceable); every witness is cross-checked against the jsonschema library in the '
    'concrete replay, and a disagreement between the two validators is reported as a harness error, never as a violation',
    "'mode' is given in the class options of a subclass (the documented 'inherit with different modes' route); the generator's "
    'own mode= argument is compared with that route in the obligation generator-mode-argument',
    "a name is 'accepted as input' when changing the value supplied under it changes the outcome of the parse (so keys of "
    'no_input fields and dropped unknown keys are not accepted)',
    'format is an annotation (as in the specification); x-* keywords are ignored',
]

JSON_TYPES = {
    'scalar': [('int',), ('float',), ('str',), ('bool',), ('none',), ('decimal',), ('enum',), ('uuid',), ('date',), ('datetime',),
               ('time',), ('timedelta',), ('bytes',)],
    'constrained': [('rule', I, {'ge': 0, 'lt': 10}), ('rule', I, {'gt': -3, 'le': 3}), ('rule', S, {'max_length': 3, 'min_length': 1}),
                    ('rule', S, {'regex': '[a-z]+'}), ('rule', I, {'multiple_of': 3}), ('rule', ('float',), {'gt': 0.0}),
                    ('rule', ('list', I), {'unique_items': True, 'max_length': 2}), ('rule', S, {'enum': ['a', 'b']}),
                    ('rule', I, {'const': 1}), ('rule', ('dict', S, I), {'min_length': 1})],
    'generic': [('list', I), ('set', I), ('tuple', [I, S]), ('vtuple', I), ('dict', S, I), ('dict', I, ('list', I)),
                ('list', ('list', I)), ('list', ('opt', I)), ('list', ('rule', I, {'ge': 0}))],
    'logical': [('opt', I), ('union', I, S), ('union', I, ('list', I)), ('xor', ('rule', I, {'gt': 0}), ('rule', I, {'lt': 0})),
                ('union', ('dc', 'TInner'), I), ('opt', ('any',)), ('union', I, ('any',)), ('list', ('union', ('none',), ('any',))),
                ('dict', S, ('opt', ('any',)))],
    'dataclass': [('dc', 'TInner'), ('dc', 'TOuter'), ('list', ('dc', 'TInner')), ('dict', S, ('dc', 'TInner'))],
}


def encode(v):
    return json.loads(json.dumps(v, cls=JSONEncoder))


def _outputs(V, group):
    with V.notrace():
        for d in JSON_TYPES[group]:
            real(d)
    d = V.pick('T', JSON_TYPES[group])
    T = real(d)
    with V.notrace():
        schema = JsonSchemaGenerator(T, output=True)()
        in_schema = JsonSchemaGenerator(T, output=False)()
    if not V.symbolic:
        for label, doc in (('output', schema), ('input', in_schema)):
            msg = minijs.schema_is_valid(doc)
            V.check(msg is None, 'schema:invalid-document', lambda: '%s %s schema %r: %s' % (td.show(d), label, doc, msg))
    x = value(V, sym_int=False)
    try:
        y = type_transform(x, T)
    except Exception:  # noqa
        V.cover('reject')
        return
    try:
        j = encode(y)
    except Exception as e:  # noqa
        if 'any' in repr(d):
            V.cover('reject')       # an Any-typed member holds a value outside the JSON-faithful domain
            return
        V.fail('schema:output-not-encodable', '%s: %r -> %r cannot be JSON encoded: %r' % (td.show(d), x, y, e))
    ok = minijs.valid(schema, j)
    det = lambda: '%s: input %r -> %r -> JSON %r does not validate against the output schema %r' % (td.show(d), x, y, j, schema)
    if not V.symbolic:
        lib = minijs.library_valid(schema, j)
        if lib != ok:
            raise RuntimeError('mini validator (%r) and jsonschema (%r) disagree on %r / %r' % (ok, lib, schema, j))
    from decimal import Decimal as _D
    unsafe = ':decimal-js-unsafe' if isinstance(y, _D) and isinstance(j, str) else ''
    V.check(ok, 'schema:output-does-not-validate:' + td.show(d).split('{')[0].split('[')[0] + unsafe, det)
    V.cover('accept')


for _g in JSON_TYPES:
    ob('outputs/' + _g, marks=['accept', 'reject'], budget=(60, 400), per_path=(10, 20), exhaustive=False,
       bounds='T in {%s}; x from the shared value generator (picked ints); T(x) JSON-encoded with the library encoder must validate '
              'against JsonSchemaGenerator(T, output=True)(); both documents must be valid draft 2020-12 schemas' % ', '.join(
                  td.show(d) for d in JSON_TYPES[_g]),
       out='negation; $defs naming; format semantics')((lambda g: lambda V: _outputs(V, g))(_g))


# ------------------------------------------------------------------ documents with shared $defs
def _m1():
    class Address(Schema):
        street: str
        city: str = 'x'
    return Address


def _m2():
    class Address(Schema):
        host: str
        port: int = Field(ge=0, le=65535, default=0)
    return Address


A1, A2 = _m1(), _m2()


class Node(Schema):
    v: types.PositiveInt
    w: types.PositiveInt = 1
    kids: List['Node'] = Field(default_factory=list)


class Customer(Schema):
    name: str
    home: A1
    server: A2
    tree: Optional[Node] = None
    backup: Optional[A2] = None


DEF_ROOTS = {'Customer': Customer, 'List[Customer]': List[Customer], 'Dict[str,A1]': Dict[str, A1], 'Node': Node,
             'Union[A1,A2]': Union[A1, A2], 'Tuple[A2,A1]': Tuple[A2, A1]}
HOMES = [{'street': 'a'}, {'street': 'a', 'city': 'b'}, {'host': 'h'}, {}]
SERVERS = [{'host': 'h'}, {'host': 'h', 'port': '80'}, {'street': 'a'}, {'host': 'h', 'port': -1}]
TREES = [None, {'v': 1}, {'v': '2', 'kids': [{'v': 3, 'w': 2}]}, {'v': 0}, {'v': 1, 'kids': [{'v': -1}]}]


def refs_of(node, out):
    if isinstance(node, dict):
        if isinstance(node.get('$ref'), str):
            out.append(node['$ref'])
        for x in node.values():
            refs_of(x, out)
    elif isinstance(node, list):
        for x in node:
            refs_of(x, out)
    return out


@ob('outputs/shared-defs', marks=['accept', 'reject'], budget=(60, 200),
    bounds='roots %s over two different data classes that share the class name Address, a self-referencing Node with a named '
           'constrained type used twice, generated with a shared defs dict (document = root + $defs from get_defs()), output and '
           'input view; every $ref resolves to a named definition, the document is a valid draft 2020-12 schema, every produced value '
           'validates against the output document, and a definition describes the class it is referenced for (each class rejects the '
           "other class's instances; so must its definition)" % sorted(DEF_ROOTS),
    out='ref_prefix other than the default; def names given by the caller')
def shared_defs(V):
    rname = V.pick('root', sorted(DEF_ROOTS) if V.thorough else [r for r in sorted(DEF_ROOTS) if r != 'List[Customer]'])
    T = DEF_ROOTS[rname]
    out_view = V.bool('output')
    with V.notrace():
        g = JsonSchemaGenerator(T, defs={}, output=out_view)
        root = g()
        defs = g.get_defs()
        doc = dict(root)
        doc['$defs'] = defs
    d0 = lambda: '%s output=%r: document %r' % (rname, out_view, doc)
    V.check(all(isinstance(k, str) and k for k in defs), 'schema:definition-without-name', d0)
    for ref in refs_of(doc, []):
        V.check(ref.startswith('#/$defs/') and ref[len('#/$defs/'):] in defs, 'schema:unresolvable-ref', lambda: d0() + ' ref %r' % ref)
    if not V.symbolic:
        msg = minijs.schema_is_valid(doc)
        V.check(msg is None, 'schema:invalid-document', lambda: d0() + ': %s' % msg)
    need = {'Customer': 'hst', 'List[Customer]': 'hst', 'Dict[str,A1]': 'h', 'Node': 't', 'Union[A1,A2]': 'hs', 'Tuple[A2,A1]': 'hs'}[rname]
    home = V.pick('home', HOMES) if 'h' in need else None
    server = V.pick('server', SERVERS) if 's' in need else None
    tree = V.pick('tree', TREES) if 't' in need else None
    cust = {'name': 'n', 'home': home, 'server': server, 'tree': tree}
    if need == 'hst' and V.bool('backup'):
        cust['backup'] = server
    x = {'Customer': cust, 'List[Customer]': [cust], 'Dict[str,A1]': {'k': home}, 'Node': tree,
         'Union[A1,A2]': home if rname != 'Union[A1,A2]' or V.bool('first') else server, 'Tuple[A2,A1]': [server, home]}[rname]
    try:
        y = type_transform(x, Rule.parse_annotation(T) if not isinstance(T, type) else T)
    except Exception:  # noqa
        V.cover('reject')
        return
    j = encode(y)
    ok = minijs.valid(doc, j)
    if not V.symbolic:
        lib = minijs.library_valid(doc, j)
        if lib != ok:
            raise RuntimeError('mini validator (%r) and jsonschema (%r) disagree on %r / %r' % (ok, lib, doc, j))
    if out_view:
        V.check(ok, 'schema:output-does-not-validate:shared-defs', lambda: d0() + ' ; input %r -> JSON %r' % (x, j))
    # the definition referenced for a class describes that class: its required names are the class's own
    for prop, cls in (('home', A1), ('server', A2)):
        holder = defs.get('Customer', {}).get('properties', {}).get(prop)
        if rname in ('Customer', 'List[Customer]') and holder is not None:
            target = defs[holder['$ref'][len('#/$defs/'):]]
            want = sorted(f.name for f in cls.__parser__.fields.values() if f.is_required(cls.__parser__.options))
            V.check((out_view or sorted(target.get('required') or []) == want) and set(target.get('properties', {})) == set(cls.__parser__.fields),
                    'schema:definition-of-another-class', lambda: d0() + ' ; %s -> %r' % (prop, target))
    V.cover('accept')


# ------------------------------------------------------------------ structure of the input schema vs parser behaviour
MODES = [None, 'r', 'w', 'a']
ADDITIONS = [None, True, False, int]


def listed_names(schema, ci):
    out = {}
    for name, p in schema.get('properties', {}).items():
        names = [name] + list(p.get('x-aliases', []))
        vn = p.get('x-var-name')
        if vn:
            names.append(vn)
        out[name] = names
    return out


def probe(cls, data):
    try:
        inst = cls.__from__(dict(data))
        return ('ok', dict(inst), {k: v for k, v in inst.__dict__.items() if not k.startswith('__')})
    except exc.ParseError as e:
        return ('err', sorted(dcspec.err_kinds(e)))


def _structure(V, spec_id):
    spec = dcspec.SPECS[spec_id]
    mode = V.pick('mode', MODES if spec_id in ('mode', 'io', 'mix', 'modeout', 'modereq') else [None, 'w'])
    addition = V.pick('addition', ADDITIONS)
    o = {}
    if mode:
        o['mode'] = mode
    if addition is not None:
        o['addition'] = addition
    with V.notrace():
        cls = dcspec.make_class(spec_id, 'Schema', o)
        schema = JsonSchemaGenerator(cls, output=False)()
        out_schema = JsonSchemaGenerator(cls, output=True)()
    if not V.symbolic:
        for label, doc in (('input', schema), ('output', out_schema)):
            msg = minijs.schema_is_valid(doc)
            V.check(msg is None, 'schema:invalid-document', lambda: '%s %r %s schema: %s' % (spec_id, o, label, msg))
    ci_class = False
    listed = listed_names(schema, ci_class)
    # a full valid input under the attribute names of every field that takes input in this mode
    base = {}
    for f in spec:
        if not dcspec.mode_flag(f['no_input'], mode, f['mode']):
            base[f['name']] = 1
    det0 = lambda: '%s options=%r input schema %r' % (spec_id, o, schema)
    # 1. listed properties are exactly the names accepted as input
    keys = dcspec.key_vocab(spec_id, 0)
    k = V.pick('key', keys)
    other = {n: v for n, v in base.items() if not any(f['name'] == n and dcspec.matches(f, k, {}) for f in spec)}
    r1, r2 = probe(cls, dict(other, **{k: 1})), probe(cls, dict(other, **{k: 2}))
    accepted = r1 != r2
    is_listed = any(k in names or any(k.lower() == n.lower() and _ci_field(spec, n) for n in names) for names in listed.values())
    is_unknown = not any(dcspec.matches(f, k, {}) for f in spec)
    if is_unknown and accepted and addition in (True, int):
        accepted = False       # an unknown key kept through `addition` is not a declared property
    V.check(accepted == is_listed, 'structure:properties:' + ('accepted-but-not-listed' if accepted else 'listed-but-not-accepted'),
            lambda: det0() + ' ; key %r: accepted as input=%r (%r vs %r), listed=%r' % (k, accepted, r1, r2, is_listed))
    # 2. required lists exactly the fields whose absence is an error
    names = sorted(listed)
    if names:
        p = V.pick('prop', names)
        f = [g for g in spec if dcspec.out_name(g) == p or g['name'] == p or dcspec.out_name(g).lower() == p]
        if f:
            f = f[0]
            without = {n: v for n, v in base.items() if n != f['name']}
            r = probe(cls, without)
            absent_error = r[0] == 'err' and any(x.startswith('absence:') for x in r[1])
            V.check(absent_error == (p in schema.get('required', [])), 'structure:required:' + ('missing' if absent_error else 'spurious'),
                    lambda: det0() + ' ; property %r absent -> %r ; required=%r' % (p, r, schema.get('required')))
    # 3. additionalProperties reflects what happens to unknown keys
    unknown_ok = probe(cls, dict(base, zz='5'))
    unknown_bad = probe(cls, dict(base, zz='x'))
    ap = schema.get('additionalProperties', 'absent')
    if unknown_ok[0] == 'err' and any(x.startswith('exceed') for x in unknown_ok[1]):
        behaviour = 'rejected'
    elif unknown_ok[0] == 'ok' and 'zz' not in unknown_ok[1]:
        behaviour = 'dropped'
    elif unknown_ok[0] == 'ok' and unknown_ok[1].get('zz') == '5':
        behaviour = 'kept'
    elif unknown_ok[0] == 'ok' and unknown_ok[1].get('zz') == 5 and unknown_bad[0] == 'err':
        behaviour = 'converted'
    else:
        behaviour = 'other'
    want = {'rejected': False, 'dropped': 'absent', 'kept': True, 'converted': {'type': 'integer'}}.get(behaviour, 'unknown')
    V.check(ap == want, 'structure:additionalProperties', lambda: det0() + ' ; unknown key is %s by the parser (%r / %r) but '
            'additionalProperties=%r' % (behaviour, unknown_ok, unknown_bad, ap))
    # 4. whatever the parser produces validates against the output schema
    if unknown_ok[0] == 'ok':
        j = encode(unknown_ok[1])
        ok = minijs.valid(out_schema, j)
        if not V.symbolic:
            lib = minijs.library_valid(out_schema, j)
            if lib != ok:
                raise RuntimeError('mini validator (%r) and jsonschema (%r) disagree on %r / %r' % (ok, lib, out_schema, j))
        V.check(ok, 'schema:output-does-not-validate:dataclass', lambda: '%s options=%r: output %r does not validate against %r' % (
            spec_id, o, j, out_schema))
    V.cover('done')


def _ci_field(spec, listed_name):
    for f in spec:
        if f['ci'] and (dcspec.out_name(f).lower() == listed_name.lower() or listed_name.lower() in [n.lower() for n in dcspec.names_of(f)]):
            return True
    return False


for _s in [x for x in dcspec.SPECS if x != 'depio']:
    ob('structure/' + _s, marks=['done'], budget=(90, 300),
       bounds='declaration %r as a Schema with class options mode in {none, r, w, a} (where the declaration uses modes) and addition '
              'in {none, True, False, int}; a solver-picked key of the full key vocabulary (accepted spellings, case variants, '
              'unknown) and a solver-picked listed property: properties <=> accepted as input, required <=> absence is an error, '
              'additionalProperties <=> dropped / kept / rejected / converted, parser output validates against the output schema' % _s,
       out='non-int field types; nested classes (outputs/dataclass)')((lambda s: lambda V: _structure(V, s))(_s))


@ob('generator-mode-argument', marks=['done'], budget=(60, 200),
    bounds='declarations mode / io / mix: JsonSchemaGenerator(cls, mode=m) on the mode-less class must list the same properties and '
           'required names as the generator applied to the subclass carrying Options(mode=m), for m in {r, w, a} and input / output')
def generator_mode_argument(V):
    spec_id = V.pick('spec', ['mode', 'io', 'mix'])
    m = V.pick('mode', ['r', 'w', 'a'])
    output = V.bool('output')
    with V.notrace():
        plain = dcspec.make_class(spec_id, 'Schema', None)
        sub = dcspec.make_class(spec_id, 'Schema', {'mode': m})
        a = JsonSchemaGenerator(plain, mode=m, output=output)()
        b = JsonSchemaGenerator(sub, output=output)()
    V.check(sorted(a.get('properties', {})) == sorted(b.get('properties', {})) and
            sorted(a.get('required', [])) == sorted(b.get('required', [])), 'structure:mode-argument-ignored',
            lambda: '%s mode=%s output=%r: generator argument -> properties %r required %r ; class options -> properties %r required %r' % (
                spec_id, m, output, sorted(a.get('properties', {})), a.get('required'), sorted(b.get('properties', {})), b.get('required')))
    V.cover('done')
