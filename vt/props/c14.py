"""C14 -- JSON encoding round-trips through the parser"""
import json
import uuid
from datetime import date, datetime, time, timedelta, timezone
from decimal import Decimal
from enum import Enum
from typing import Any, Dict, FrozenSet, List, Optional, Set, Tuple

from utype import Field, Schema, exc
from utype.utils.encode import JSONEncoder
from vt.ob import ob

PROP = 'C14'
ASSUMPTIONS = [
    'strength is lower here and is stated: isoformat / strptime / "{:02d}".format and json.dumps are C code that concretise symbolic '
    'integers, so the components of every value are solver integers that are split into regions by explicit branches (sign, zero, '
    'boundary) and then realised: solver-driven region coverage, not exhaustive over the value domain',
    'Decimal (<= 15 significant digits) is built from a solver-chosen digit string and exponent and compared numerically; float '
    'values are picked (no NaN); binary <-> decimal float conversion is C code and is not modelled',
    "'equal instance' is the class's own == plus same type per field",
]


class Shade(Enum):
    LIGHT = 'light'
    DARK = 'dark'


class Level(Enum):
    LOW = 1
    HIGH = 2


class Swap(str, Enum):
    # a member's value is another member's name
    A = 'B'
    B = 'A'
    C = 'C'


class Num(int, Enum):
    one = 1
    two = 2


class Mixed(Enum):
    ONE = 1
    S = '1'
    N = 'ONE'


class Ratio(Enum):
    tenth = 0.1
    half = 0.5
    third = 1 / 3


class Inner(Schema):
    x: int
    when: Optional[datetime] = None


class RT(Schema):
    i: int = 0
    f: float = 0.0
    s: str = ''
    b: bool = False
    n: Optional[int] = None
    by: bytes = b''
    dec: Decimal = Decimal('0')
    d: date = date(2000, 1, 1)
    dt: datetime = datetime(2000, 1, 1)
    t: time = time(0, 0)
    td: timedelta = timedelta(0)
    u: uuid.UUID = uuid.UUID(int=0)
    e: Shade = Shade.LIGHT
    lv: Level = Level.LOW
    sw: Swap = Swap.C
    num: Num = Num.one
    mx: Mixed = Mixed.ONE
    li: List[int] = Field(default_factory=list)
    se: Set[int] = Field(default_factory=set)
    fz: FrozenSet[int] = Field(default_factory=frozenset)
    ul: list = Field(default_factory=list)
    ud: dict = Field(default_factory=dict)
    an: Any = None
    rt: Ratio = Ratio.half
    ses: Set[Shade] = Field(default_factory=set)
    son: Set[Optional[int]] = Field(default_factory=set)
    sd: Set[date] = Field(default_factory=set)
    tu: Tuple[int, str] = (0, '')
    di: Dict[str, int] = Field(default_factory=dict)
    inner: Optional[Inner] = None
    kids: List[Inner] = Field(default_factory=list)
    dts: List[datetime] = Field(default_factory=list)
    tdm: Dict[str, timedelta] = Field(default_factory=dict)


def roundtrip(V, field, value, label):
    """`value` may be a thunk: every component has been realised by then, and the value, the encoder (C code, isoformat)
    and the parse back run on concrete data outside CrossHair's tracing (its datetime / Decimal stand-ins are not the real
    classes the encoder registry knows)"""
    with V.notrace():
        _roundtrip(V, field, value() if callable(value) else value, label)


def _roundtrip(V, field, value, label):
    inst = RT(**{field: value})
    try:
        text = json.dumps(inst, cls=JSONEncoder)
    except Exception as e:  # noqa
        V.fail('roundtrip:encode-failed:' + label, '%s=%r: json.dumps raised %r' % (field, value, e))
    try:
        json.loads(text, parse_constant=lambda c: (_ for _ in ()).throw(ValueError('non-standard JSON constant ' + c)))
    except ValueError as e:
        V.fail('roundtrip:non-standard-json:' + label, '%s=%r encoded as %s: %s' % (field, value, text, e))
    try:
        back = RT.__from__(text)
    except exc.ParseError as e:
        V.fail('roundtrip:parse-back-failed:' + label, '%s=%r encoded as %s does not parse back: %s' % (field, value, text, str(e)[:200]))
    got = back[field]
    same = got == value and type(got) is type(value) and back == inst
    if isinstance(value, datetime) and same:
        same = got.utcoffset() == value.utcoffset()
    V.check(same, 'roundtrip:changed:' + label, lambda: '%s=%r encoded as %s parsed back as %r' % (field, value, text, got))
    V.cover(label)


def split(V, name, x, points):
    """explicit region split of a solver integer at the given points (branches only), then one model value"""
    region = 0
    for p in points:
        if x < p:
            break
        if x == p:
            region += 1
            break
        region += 2
    return V.concrete(name, x)


# ------------------------------------------------------------------ scalars
@ob('scalars', marks=['int', 'bool', 'none', 'str', 'float', 'bytes', 'enum', 'uuid'], budget=(60, 200), exhaustive=False,
    bounds='int (unbounded solver int, split at 0, +-2**53, +-2**63), bool, None, str (<= 3 symbolic chars incl. quote, backslash, '
           'control and non-ASCII code points), float picks (no NaN), UTF-8 bytes picks, five Enums (plain, int-valued, str / int mixed-in, a value that names another member, mixed value types), UUID from a solver 128-bit int')
def scalars(V):
    k = V.pick('kind', ['int', 'bool', 'none', 'str', 'float', 'bytes', 'enum', 'uuid'])
    if k == 'int':
        x = V.int('i')
        v = split(V, 'i', x, [-2 ** 63, -2 ** 53, 0, 2 ** 53, 2 ** 63])
        roundtrip(V, 'i', v, 'int')
    elif k == 'bool':
        roundtrip(V, 'b', V.bool('b'), 'bool')
    elif k == 'none':
        which = V.pick('opt', ['none', 'int'])
        roundtrip(V, 'n', None if which == 'none' else V.concrete('n', V.int('n', -5, 5)), 'none')
    elif k == 'str':
        n = V.pick('len', [0, 1, 2, 3])
        cps = []
        for i in range(n):
            c = V.int('c%d' % i, 0, 0x2FFF)
            cps.append(split(V, 'c%d' % i, c, [0x20, 0x22, 0x5c, 0x7f, 0x100, 0x2028]))
        roundtrip(V, 's', lambda: ''.join(chr(c) for c in cps), 'str')
    elif k == 'float':
        roundtrip(V, 'f', V.pick('f', [0.0, -0.0, 1.5, -2.25, 1e-7, 1e22, 1.7976931348623157e308, 5e-324, 0.1, 1 / 3, float('inf'),
                                        float('-inf')]), 'float')
    elif k == 'bytes':
        roundtrip(V, 'by', V.pick('by', [b'', b'a', b'ab\n', 'é'.encode(), '雪'.encode(), b'"q"', b'\\', b'\x00', b'null', b'1', b'\xef\xbb\xbfbom', b'a\xef\xbb\xbf', '\ufeff'.encode()]), 'bytes')
    elif k == 'enum':
        which = V.pick('enum', ['level', 'shade', 'swap', 'num', 'mixed', 'ratio'])
        if which == 'ratio':
            roundtrip(V, 'rt', V.pick('rt', [Ratio.tenth, Ratio.half, Ratio.third]), 'enum')
        elif which == 'swap':
            roundtrip(V, 'sw', V.pick('sw', [Swap.A, Swap.B, Swap.C]), 'enum')
        elif which == 'num':
            roundtrip(V, 'num', V.pick('num', [Num.one, Num.two]), 'enum')
        elif which == 'mixed':
            roundtrip(V, 'mx', V.pick('mx', [Mixed.ONE, Mixed.S, Mixed.N]), 'enum')
        elif which == 'level':
            roundtrip(V, 'lv', V.pick('lv', [Level.LOW, Level.HIGH]), 'enum')
        else:
            roundtrip(V, 'e', V.pick('e', [Shade.LIGHT, Shade.DARK]), 'enum')
    else:
        hi, lo = V.int('u_hi', 0, 2 ** 64 - 1), V.int('u_lo', 0, 2 ** 64 - 1)
        hi, lo = split(V, 'u_hi', hi, [1, 2 ** 63]), split(V, 'u_lo', lo, [1, 2 ** 63])
        roundtrip(V, 'u', lambda: uuid.UUID(int=(hi << 64) | lo), 'uuid')


# ------------------------------------------------------------------ temporal values
def sym_date(V, tag=''):
    y = split(V, tag + 'year', V.int(tag + 'year', 1, 9999), [2, 1000, 1970, 9999])
    m = split(V, tag + 'month', V.int(tag + 'month', 1, 12), [2, 10, 12])
    d = split(V, tag + 'day', V.int(tag + 'day', 1, 28), [10, 28])
    return y, m, d


def sym_clock(V, tag='', ms_only=False):
    h = split(V, tag + 'hour', V.int(tag + 'hour', 0, 23), [1, 10, 23])
    mi = split(V, tag + 'minute', V.int(tag + 'minute', 0, 59), [1, 59])
    s = split(V, tag + 'second', V.int(tag + 'second', 0, 59), [1, 59])
    if ms_only:
        us = split(V, tag + 'ms', V.int(tag + 'ms', 0, 999), [1, 10, 100, 999]) * 1000
    else:
        us = split(V, tag + 'us', V.int(tag + 'us', 0, 999999), [1, 1000, 100000, 999999])
    return h, mi, s, us


@ob('temporal/date', marks=['date'], budget=(40, 150), exhaustive=False,
    bounds='date with year 1..9999, month, day 1..28 as solver ints split at boundaries')
def t_date(V):
    ymd = sym_date(V)
    roundtrip(V, 'd', lambda: date(*ymd), 'date')


@ob('temporal/datetime', marks=['naive', 'utc', 'east', 'west'], budget=(90, 300), exhaustive=False,
    bounds='datetime: date and clock fields (microseconds 0..999999) as solver ints split at boundaries; naive, or with a UTC offset of '
           'solver-chosen minutes in -1439..1439 split at <0 / 0 / >0 and at whole hours')
def t_datetime(V):
    y, m, d = sym_date(V)
    if y < 2:
        y = 2                     # room for the offset
    h, mi, s, us = sym_clock(V)
    tzk = V.pick('tz', ['naive', 'offset'])
    if tzk == 'naive':
        roundtrip(V, 'dt', lambda: datetime(y, m, d, h, mi, s, us), 'naive')
        return
    off = V.int('offset_minutes', -1439, 1439)
    if off < 0:
        label = 'west'
    elif off == 0:
        label = 'utc'
    else:
        label = 'east'
    if off % 60 == 0:
        pass
    off = V.concrete('offset_minutes', off)
    roundtrip(V, 'dt', lambda: datetime(y, m, d, h, mi, s, us, tzinfo=timezone(timedelta(minutes=off))), label)


@ob('temporal/time', marks=['time'], budget=(40, 150), exhaustive=False,
    bounds='time to millisecond precision: hour, minute, second, millisecond as solver ints split at boundaries')
def t_time(V):
    h, mi, s, us = sym_clock(V, ms_only=True)
    roundtrip(V, 't', lambda: time(h, mi, s, us), 'time')


@ob('temporal/timedelta', marks=['positive', 'negative', 'zero'], budget=(60, 200), exhaustive=False,
    bounds='timedelta(days -999999999..999999999, seconds 0..86399, microseconds 0..999999) as solver ints split at sign / zero / '
           'boundaries / the magnitudes where total_seconds() stops being exact (2**33, 2**34 s)')
def t_timedelta(V):
    days = split(V, 'days', V.int('days', -999999999, 999999999), [-999999999, -200000, -99421, -1, 0, 1, 99421, 200000, 999999999])
    secs = split(V, 'seconds', V.int('seconds', 0, 86399), [1, 60, 3600, 86399])
    us = split(V, 'us', V.int('us', 0, 999999), [1, 1000, 100000, 999999])
    label = 'zero' if (days == 0 and secs == 0 and us == 0) else 'negative' if days < 0 else 'positive'
    roundtrip(V, 'td', lambda: timedelta(days=days, seconds=secs, microseconds=us), label)


# ------------------------------------------------------------------ Decimal up to 15 significant digits
@ob('decimal', marks=['integral', 'fraction', 'negative'], budget=(60, 200), exhaustive=False,
    bounds='Decimal built from a solver-chosen coefficient (1..15 digits, split by digit count) and exponent -400..400 (split at the '
           'double range limits 308/309, -308, -324), both signs; '
           'compared numerically after the round trip', out='more than 15 significant digits')
def decimal_(V):
    nd = V.pick('digits', [1, 2, 7, 15])
    coef = V.int('coef', 10 ** (nd - 1) if nd > 1 else 0, 10 ** nd - 1)
    coef = split(V, 'coef', coef, [10 ** (nd - 1) + 1, 10 ** nd - 1])
    exp = split(V, 'exp', V.int('exp', -400, 400), [-339, -324, -308, -10, -1, 0, 1, 5, 293, 308, 309])
    neg = V.bool('negative')
    with V.notrace():
        value = Decimal((1 if neg else 0, tuple(int(c) for c in str(coef)), exp))
        inst = RT(dec=value)
        text = json.dumps(inst, cls=JSONEncoder)
        try:
            json.loads(text, parse_constant=lambda c: (_ for _ in ()).throw(ValueError('non-standard JSON constant ' + c)))
        except ValueError as e:
            V.fail('roundtrip:non-standard-json:decimal', 'dec=%r encoded as %s: %s' % (value, text, e))
        try:
            back = RT.__from__(text)
        except exc.ParseError as e:
            V.fail('roundtrip:parse-back-failed:decimal', 'dec=%r encoded as %s does not parse back: %s' % (value, text, str(e)[:200]))
        got = back['dec']
        V.check(type(got) is Decimal and got == value, 'roundtrip:changed:decimal', 'dec=%r encoded as %s parsed back as %r' % (value, text, got))
    V.cover('negative' if neg else 'integral' if exp >= 0 else 'fraction')


# ------------------------------------------------------------------ containers, nested data classes
# built at import time (outside tracing): real datetime objects, not CrossHair's stand-ins
WHEN = [None, datetime(2020, 1, 2, 3, 4, 5), datetime(2020, 1, 2, 3, 4, 5, 120000, tzinfo=timezone(timedelta(hours=-8))),
        datetime(1999, 12, 31, 23, 59, 59, tzinfo=timezone(timedelta(minutes=330))), datetime(2020, 1, 2, 3, 4, 5, tzinfo=timezone.utc),
        datetime(2021, 6, 7, 8, 9, 10, tzinfo=timezone(timedelta(hours=-3, minutes=-30)))]


@ob('containers', marks=['list', 'set', 'tuple', 'dict', 'nested', 'kids', 'datetimes', 'durations'], budget=(60, 200), exhaustive=False,
    bounds='List[int], Set[int], Set[Enum], Set[Optional[int]], Set[date], Tuple[int,str], Dict[str,int] of <= 2 solver ints / picked strings; nested data class with an int '
           'and an optional datetime (naive or negative / positive offset); list of nested; List[datetime]; Dict[str, timedelta]')
def containers(V):
    k = V.pick('kind', ['list', 'set', 'tuple', 'dict', 'nested', 'kids', 'datetimes', 'durations', 'set-of-enum', 'set-of-optional', 'set-of-date',
                        'untyped'])
    n = V.pick('n', [0, 1, 2])
    ints = [V.concrete('x%d' % i, V.int('x%d' % i, -5, 5)) for i in range(n)]
    when = V.pick('when', WHEN)
    if k == 'untyped':
        # fields without a declared element type: what the text says is what comes back (a float stays a float)
        u = V.pick('untyped', ['list', 'dict', 'any'])
        fl = V.pick('float', [0.1, 0.5, 1e-7, 2.5, 1 / 3])
        if u == 'list':
            roundtrip(V, 'ul', lambda: [fl] + list(ints) + ['s', None, True], 'list')
        elif u == 'dict':
            roundtrip(V, 'ud', lambda: {'k': fl, 'n': list(ints), 'z': None}, 'dict')
        else:
            roundtrip(V, 'an', lambda: fl if n == 0 else [fl, {'k': fl}], 'list')
    elif k == 'list':
        roundtrip(V, 'li', lambda: list(ints), 'list')
    elif k == 'set':
        if V.bool('frozen'):
            roundtrip(V, 'fz', lambda: frozenset(ints), 'set')
        else:
            roundtrip(V, 'se', lambda: set(ints), 'set')
    elif k == 'set-of-enum':
        roundtrip(V, 'ses', lambda: {Shade.LIGHT, Shade.DARK} if n == 2 else {Shade.DARK} if n else set(), 'set')
    elif k == 'set-of-optional':
        roundtrip(V, 'son', lambda: set(ints) | ({None} if n else set()), 'set')
    elif k == 'set-of-date':
        roundtrip(V, 'sd', lambda: {date(2020, 1, 1 + abs(v)) for v in ints}, 'set')
    elif k == 'tuple':
        ts = V.pick('ts', ['', 'a', '1', 'é"'])
        roundtrip(V, 'tu', lambda: (ints[0] if ints else 0, ts), 'tuple')
    elif k == 'dict':
        ks = [V.pick('k%d' % i, ['a', 'b', '', '1', 'é']) for i in range(len(ints))]
        roundtrip(V, 'di', lambda: dict(zip(ks, ints)), 'dict')
    elif k == 'nested':
        roundtrip(V, 'inner', lambda: Inner(x=ints[0] if ints else 0, when=when), 'nested')
    elif k == 'kids':
        roundtrip(V, 'kids', lambda: [Inner(x=v, when=when) for v in ints], 'kids')
    elif k == 'datetimes':
        roundtrip(V, 'dts', lambda: [when] * n if when else [], 'datetimes')
    else:
        roundtrip(V, 'tdm', lambda: {('k%d' % i): timedelta(days=v, microseconds=v * 1000) for i, v in enumerate(ints)}, 'durations')
