"""C05 -- data-class parsing implements the declared field contract"""
from vt import dcspec
from vt.ob import ob
from vt.dcsym import GROUPS, QUICK, applicable, bounds_text, limit_for, sym_items, sym_options

PROP = 'C05'
ASSUMPTIONS = [
    'the reference model vt/dcspec.py:reference restates the documented field rules (docs/en/references/field.md, '
    'options.md) for int-typed fields; where the documentation is silent (which of several differing spellings wins under '
    'ignore_alias_conflicts) the model accepts either outcome',
    'error kinds compared: absence / exceed / alias conflict / dependency / params / parse, each with its item; with '
    'fail-fast reporting the reported kind must be one of the kinds the model derives',
]


def val_ok(model_v, impl_v):
    if isinstance(model_v, tuple) and model_v and model_v[0] == 'one-of':
        return True       # undetermined by the documentation
    return type(model_v) is type(impl_v) and model_v == impl_v


def may_be_absent(model_v):
    # an undetermined outcome one of whose candidates is "excluded, falls back to the default": a field without a
    # default is then simply absent
    return isinstance(model_v, tuple) and model_v and model_v[0] == 'one-of' and any(c == ('default',) for c in model_v[1])


def view_eq(model, impl, loose=()):
    if not set(impl) <= set(model) or any(k not in impl and not may_be_absent(model[k]) for k in model):
        return False
    return all(val_ok(model[k], impl[k]) for k in impl)


def undetermined(m):
    return any(isinstance(v, tuple) and v and v[0] == 'one-of' for v in list(m['keys'].values()) + list(m['attrs'].values()))


def _c05(V, spec_id, group, base):
    o = sym_options(V, group)
    ci = bool(o.get('case_insensitive'))
    strategy = V.pick('data_first_search', [None, True, False] if V.thorough or group == 'plain' else [True, False])
    items = sym_items(V, spec_id, limit=limit_for(V, spec_id, group), strs=V.thorough or spec_id != 'onerr')
    m = dcspec.reference(spec_id, o, items)
    oo = dict(o)
    if strategy is not None:
        oo['data_first_search'] = strategy
    with V.notrace():
        cls = dcspec.make_class(spec_id, base, oo)
    r = dcspec.run_impl(cls, items)
    det = lambda: '%s %r options=%r: model errors=%r (+optional %r) keys=%r attrs=%r ; implementation -> %r' % (
        cls.__name__, items, oo, sorted(m['errors']), sorted(m['optional']), m['keys'], m['attrs'], r[:3])
    V.check(r[0] != 'crash', 'contract:crash', det)
    if not m['errors'] and r[0] == 'err' and m['optional'] and r[1] <= m['optional']:
        # the documentation leaves this outcome open (see vt/dcspec.py:reference)
        V.cover('undetermined')
        return
    if undetermined(m) and m['errors'] == set() and r[0] == 'err':
        # one of the candidate spellings is invalid: rejecting is one of the acceptable outcomes
        V.cover('undetermined')
        return
    if m['errors']:
        V.check(r[0] == 'err', 'contract:accepted-invalid:' + sorted(m['errors'])[0].split(':')[0], det)
        V.check(r[1] <= (m['errors'] | m['optional']), 'contract:error-kind', det)
        with V.notrace():
            ccls = dcspec.make_class(spec_id, base, dict(oo, collect_errors=True))
        rc = dcspec.run_impl(ccls, items)
        if not undetermined(m):
            V.check(rc[0] == 'err' and m['errors'] <= rc[1] <= (m['errors'] | m['optional']), 'contract:collected-errors',
                    lambda: det() + ' ; collected -> %r' % (rc[:2],))
        V.cover('reject')
        return
    V.check(r[0] == 'ok', 'contract:rejected-valid:' + (sorted(r[1])[0].split(':')[0] if r[0] == 'err' else ''), det)
    inst = r[3]
    if base == 'Schema':
        V.check(view_eq(m['keys'], r[1]), 'contract:key-view', det)
    V.check(view_eq(m['attrs'], r[2]), 'contract:attribute-view', det)
    # attribute access: present fields, deferred defaults, absent fields
    for f in dcspec.SPECS[spec_id]:
        n = f['name']
        try:
            got = ('v', getattr(inst, n))
        except AttributeError:
            got = ('absent',)
        if n in m['attrs']:
            if got[0] == 'absent' and may_be_absent(m['attrs'][n]):
                continue
            V.check(got[0] == 'v' and val_ok(m['attrs'][n], got[1]), 'contract:getattr', lambda: det() + ' attr %s -> %r' % (n, got))
        elif n in m['deferred']:
            V.check(got[0] == 'v' and val_ok(m['deferred'][n], got[1]), 'contract:deferred-default', lambda: det() + ' attr %s -> %r' % (n, got))
            V.cover('deferred')
        else:
            V.check(got[0] == 'absent', 'contract:getattr-absent', lambda: det() + ' attr %s -> %r' % (n, got))
        if base == 'Schema':
            on = dcspec.out_name(f)
            if on in m['keys'] and may_be_absent(m['keys'][on]):
                continue
            V.check((on in m['keys']) == dict.__contains__(inst, on), 'contract:contains', det)
            for spelling in dcspec.names_of(f):
                V.check((spelling in inst) == (on in m['keys']), 'contract:contains-alias', lambda: det() + ' %r in inst' % spelling)
    # reading attributes (deferred defaults are evaluated on access, never stored) leaves the instance as it was
    kv2 = dict(inst) if isinstance(inst, dict) else None
    av2 = {k: v for k, v in inst.__dict__.items() if not k.startswith('__')}
    V.check(kv2 == r[1] and av2 == r[2], 'contract:read-changed-instance',
            lambda: det() + ' ; after reading every attribute: keys %r attrs %r' % (kv2, av2))
    V.cover('accept')


for _spec in [x for x in dcspec.SPECS if x != 'aliaserr']:     # (aliaserr serves C06: conflicting spellings under exclude / preserve)
    for _g in GROUPS:
        if not applicable(_spec, _g):
            continue
        _marks = ['accept', 'reject']
        if _spec == 'defer' and _g in ('plain', 'defaults', 'alias', 'required'):
            _marks = ['accept', 'deferred']
        for _base in ('Schema', 'DataClass'):
            ob('%s/%s/%s' % (_spec, _g, _base), marks=_marks, budget=(100, 400), per_path=(15, 30), exhaustive=(True, False),
               thorough_only=_g not in QUICK[_spec] or (_base == 'DataClass' and _g != 'plain') or (_g == 'alias' and _spec in ('io', 'depio')),
               bounds=bounds_text(_spec, _g, _base) + '; lookup strategy (default / data-first / field-first) solver-chosen; '
                      'outcome compared with the reference model: error kinds (fail-fast and collected), key view, '
                      'attribute view, getattr incl. deferred defaults, `in` for every spelling',
               out='combinations of option groups; non-int field types; inheritance; the thorough key vocabulary (7 / 8 keys) is explored within '
                   'the budget (solver-driven, every path replayed), not exhausted: the exhaustive claim is the quick vocabulary')(
                (lambda s, g, b: lambda V: _c05(V, s, g, b))(_spec, _g, _base))


# ------------------------------------------------------------------ 'optional fields take a fresh copy of their default'
from vt import defaults_h  # noqa: E402

ob('fresh-defaults', marks=['schema', 'function', 'forced', 'instance-default'], budget=(60, 200), bounds=defaults_h.BOUNDS)(defaults_h.defaults)


# ------------------------------------------------------------------ the mode given at parse time (runtime options)
def _c05_runtime_mode(V, spec_id):
    mode = V.pick('mode', ['r', 'w', 'a'])
    items = sym_items(V, spec_id, limit=limit_for(V, spec_id, 'mode'), strs=False)
    m = dcspec.reference(spec_id, {'mode': mode}, items)
    with V.notrace():
        cls = dcspec.make_class(spec_id, 'Schema', None)
    r = dcspec.run_impl(cls, items, runtime={'mode': mode})
    det = lambda: '%s.__from__(%r, options=Options(mode=%r)): model errors=%r keys=%r attrs=%r ; implementation -> %r' % (
        cls.__name__, items, mode, sorted(m['errors']), m['keys'], m['attrs'], r[:3])
    V.check(r[0] != 'crash', 'contract:crash', det)
    if undetermined(m) or m['optional']:
        V.cover('undetermined')
        return
    if m['errors']:
        V.check(r[0] == 'err' and r[1] <= m['errors'], 'contract:runtime-mode:verdict', det)
        V.cover('reject')
        return
    V.check(r[0] == 'ok', 'contract:runtime-mode:verdict', det)
    V.check(view_eq(m['keys'], r[1]), 'contract:runtime-mode:key-view', det)
    V.check(view_eq(m['attrs'], r[2]), 'contract:runtime-mode:attribute-view', det)
    V.cover('accept')


for _spec in ('mode', 'modeout', 'io'):
    ob('%s/runtime-mode/Schema' % _spec, marks=['accept'], budget=(100, 400), per_path=(15, 30), exhaustive=(True, False),
       bounds=bounds_text(_spec, 'mode', 'Schema') + '; the class carries no mode: the mode (r / w / a) is given at parse time through '
              '__from__(data, options=Options(mode=m)); outcome compared with the reference model of that mode (error kinds, key view, attribute view)')(
        (lambda s: lambda V: _c05_runtime_mode(V, s))(_spec))
