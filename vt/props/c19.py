"""C19 -- parsing is pure: no input mutation, no shared defaults, no cross-call state"""
from typing import Dict, List, Optional, Set, Tuple, Union

import utype
from utype import Field, Options, Param, Rule, Schema, exc, types
from utype.utils.transform import type_transform
from vt import typedesc as td
from vt.conv import I, S, real, sym_flags
from vt.ob import ob

PROP = 'C19'
ASSUMPTIONS = [
    'input purity is checked structurally: every container reachable from the input keeps its identity, its length, its keys and '
    'the identity of every element (scalars are immutable); iterators are excluded (consuming them is their protocol)',
    'history independence compares a class that has already served solver-chosen earlier parses (valid and invalid) with a '
    'freshly created identical class on the same input',
    'user-supplied converters and objects with side-effecting __eq__ / __iter__ are outside the claim',
]


# ------------------------------------------------------------------ (a) the caller's input is never modified
def snap(x, depth=0):
    if isinstance(x, list) or isinstance(x, tuple):
        return (type(x), id(x), [(id(e), snap(e, depth + 1)) for e in x])
    if isinstance(x, dict):
        return (type(x), id(x), [(id(k), id(v), snap(k, depth + 1), snap(v, depth + 1)) for k, v in x.items()])
    if isinstance(x, (set, frozenset)):
        return (type(x), id(x), len(x))
    return (type(x), id(x))


def fresh(x):
    """deep copy of the picked constants (so that a mutation cannot leak into other paths)"""
    if isinstance(x, list):
        return [fresh(e) for e in x]
    if isinstance(x, tuple):
        return tuple(fresh(e) for e in x)
    if isinstance(x, dict):
        return {k: fresh(v) for k, v in x.items()}
    if isinstance(x, set):
        return set(x)
    return x


LEAVES = [1, '5', 'x', None, 2.5, True]
NESTED = [
    [1, '2', 'x'], [[1, '2'], ['x']], {'x': '1', 'y': 's'}, {'x': 1, 'zz': [1]}, [{'x': '1'}, {'x': 'q'}], {'a': ['1', 2], 'b': []},
    {'inner': {'x': '1', 'y': 2}, 'kids': [{'x': '3'}], 'tags': ['1', '1'], 'pair': ['1', 2], 'm': {'k': '5'}},
    {'inner': {'x': 'bad'}, 'kids': [{'x': 1}, {}], 'm': {'k': 'x'}}, ('1', 's', 'extra'), {1: ['2'], '3': [4, 'x']},
    [None, '1'], [[['1']]], {'x': {'deep': [1]}}, [(1, 2), [3, '4']], {'tags': {'1', 2}},
]

PURE_TYPES = [('list', I), ('set', I), ('tuple', [I, S]), ('vtuple', I), ('dict', S, I), ('dict', I, ('list', I)), ('list', ('list', I)),
              ('list', ('opt', I)), ('list', ('dc', 'TInner')), ('dict', S, ('dc', 'TInner')), ('union', I, ('list', I)),
              ('dc', 'TInner'), ('dc', 'TOuter'), ('rule', ('list', I), {'unique_items': True}), ('list', ('rule', I, {'ge': 0})),
              ('opt', ('dict', S, ('list', I)))]


class CastKeys(Schema):
    __options__ = Options(cast_keyword_str=True, addition=True)
    x: int = 0


CAST_INPUTS = [{1: 'one'}, {1: 'one', 'x': '2'}, {'x': 1, 2: [3]}, {(1, 2): 'pair'}, {None: 0, 'x': '5'}, {'x': 'bad', 3: 4}, {}]


@ob('input/cast-keys', marks=['accept', 'reject'], budget=(40, 120),
    bounds='Schema with Options(cast_keyword_str=True, addition=True) fed through __from__, type_transform and as List[...] element '
           'with 7 dicts holding non-string keys: the caller\'s mapping keeps its keys, order and values')
def input_cast_keys(V):
    x = fresh(V.pick('x', CAST_INPUTS))
    how = V.pick('how', ['from', 'type_transform', 'list-element'])
    keys_before = list(x.keys())
    before = snap(x)
    try:
        if how == 'from':
            CastKeys.__from__(x)
        elif how == 'type_transform':
            type_transform(x, CastKeys)
        else:
            type_transform([x], Rule.parse_annotation(List[CastKeys]))
        ok = True
    except Exception:  # noqa
        ok = False
    V.check(snap(x) == before and list(x.keys()) == keys_before, 'pure:input-mutated',
            lambda: 'CastKeys via %s: input keys %r became %r' % (how, keys_before, list(x.keys())))
    V.cover('accept' if ok else 'reject')


def _input_pure(V, lo, hi):
    types_ = PURE_TYPES[lo:hi]
    with V.notrace():
        for d in types_:
            real(d)
    d = V.pick('T', types_)
    T = real(d)
    o = sym_flags(V)
    pol = V.pick('policy', ['throw', 'exclude', 'preserve'])
    if pol != 'throw':
        o.update(invalid_items=pol, invalid_keys=pol, invalid_values=pol)
    shape = V.pick('shape', ['nested', 'built'])
    if shape == 'nested':
        x = fresh(V.pick('x', NESTED))
    else:
        n = V.pick('n', [1, 2])
        elems = []
        for i in range(n):
            k = V.pick('e%d_k' % i, ['int', 'leaf', 'nested'])
            elems.append(V.pick('e%d_i' % i, [-3, 0, 3]) if k == 'int' else V.pick('e%d_l' % i, LEAVES) if k == 'leaf'
                         else fresh(V.pick('e%d_n' % i, NESTED[:6])))
        box = V.pick('box', ['list', 'tuple', 'dict'])
        x = elems if box == 'list' else tuple(elems) if box == 'tuple' else {'x': elems[0], 'k%d' % n: elems[-1]}
    before = snap(x)
    try:
        r = ('ok', type_transform(x, T, Options(**o)))
    except Exception as e:  # noqa
        r = ('err', type(e).__name__)
    after = snap(x)
    V.check(before == after, 'pure:input-mutated',
            lambda: '%s options=%r: input changed by the parse (%s): now %r' % (td.show(d), o, r[0], x))
    V.cover('accept' if r[0] == 'ok' else 'reject')


_third = (len(PURE_TYPES) + 2) // 3
for _i in range(3):
    ob('input/%d' % _i, marks=['accept', 'reject'], budget=(70, 400), exhaustive=False,
       bounds='T in {%s}; input = one of %d nested literals (lists / dicts / tuples / sets, valid and invalid leaves) or a list / '
              'tuple / dict built from 1-2 picked ints, leaves or nested literals; conversion flags and the invalid_* policy (throw / '
              'exclude / preserve) solver-picked; after success or failure every reachable container is structurally unchanged' % (
                  ', '.join(td.show(d) for d in PURE_TYPES[_i * _third:(_i + 1) * _third]), len(NESTED)),
       out='iterators; objects with side-effecting protocols')(
        (lambda a, b: lambda V: _input_pure(V, a, b))(_i * _third, (_i + 1) * _third))


# ------------------------------------------------------------------ (b) defaults are copied for every instance and call
from vt import defaults_h  # noqa: E402

ob('defaults', marks=['schema', 'function', 'forced', 'instance-default'], budget=(60, 200), bounds=defaults_h.BOUNDS)(defaults_h.defaults)


# ------------------------------------------------------------------ (c) no cross-call state
def mk_class(tag):
    class K(Schema):
        __options__ = Options(collect_errors=False)
        a: int = Field(ge=0)
        b: List[int] = Field(default_factory=list)
        c: Optional[Union[int, List[int]]] = None
        d: Dict[str, int] = Field(default_factory=dict, alias_from=['dd'])
    K.__name__ = K.__qualname__ = 'K' + tag

    @utype.parse
    def f(a: types.PositiveInt, b: List[int] = None, *rest: int, **kw: int):
        return (a, b, rest, kw)
    return K, f


INPUTS = [
    {'a': 1}, {'a': '2', 'b': ['1', 2]}, {'a': -1}, {'a': 'x'}, {}, {'a': 1, 'c': '3'}, {'a': 1, 'c': ['1']}, {'a': 1, 'c': 'x'},
    {'a': 1, 'dd': {'k': '1'}}, {'a': 1, 'd': {'k': 'x'}}, {'a': 1, 'zz': 1}, {'a': 2.5}, {'a': 1, 'b': 'x'}, {'a': 1, 'b': '1,2'},
]
CALLS = [((1,), {}), (('2', ['1']), {}), ((0,), {}), (('x',), {}), ((), {}), ((1, None, 3, '4'), {}), ((1,), {'k': '5'}),
         ((1,), {'k': 'x'}), ((1, 'x'), {})]


def outcome(fn, *a, **k):
    try:
        r = fn(*a, **k)
        if isinstance(r, Schema):
            return ('ok', dict(r), type(r).__name__[:1])
        return ('ok', r)
    except exc.ParseError as e:
        return ('err', type(e).__name__, getattr(e, 'item', None))
    except Exception as e:  # noqa
        return ('crash', type(e).__name__)


def _history_independence(V, which):
    with V.notrace():
        K1, f1 = mk_class('used')
        K2, f2 = mk_class('fresh')
    n = V.pick('n_before', [0, 1, 2])
    if which == 'schema':
        inputs = INPUTS if V.thorough else INPUTS[:9]
        hist = [V.pick('h%d' % i, inputs) for i in range(n)]
        x = V.pick('x', inputs)
        for h in hist:
            outcome(K1, **fresh(h))
        got, want = outcome(K1, **fresh(x)), outcome(K2, **fresh(x))
    else:
        hist = [V.pick('h%d' % i, CALLS) for i in range(n)]
        x = V.pick('x', CALLS)
        for a, k in hist:
            outcome(f1, *fresh(a), **fresh(k))
        got, want = outcome(f1, *fresh(x[0]), **fresh(x[1])), outcome(f2, *fresh(x[0]), **fresh(x[1]))
    V.check(got == want, 'pure:outcome-depends-on-history',
            lambda: '%s after %r: parse %r -> %r ; fresh declaration -> %r' % (which, hist, x, got, want))
    V.cover(which)


for _w in ('schema', 'function'):
    ob('history-independence/' + _w, marks=[_w], budget=(100, 500),
       bounds='a Schema (constrained int, List[int], Optional[Union[int, List[int]]], aliased Dict[str,int]) / a @parse function '
              '(PositiveInt, List[int], *rest: int, **kw: int) created inside the path; 0..2 solver-picked earlier parses from %d (9 quick) '
              'inputs / %d call shapes (valid and invalid), then a solver-picked parse whose outcome (value or error class and '
              'item) must equal that of a freshly created identical declaration' % (len(INPUTS), len(CALLS)))(
        (lambda w: lambda V: _history_independence(V, w))(_w))


# ------------------------------------------------------------------ (c') history independence across the shared converter registry
from utype.utils.transform import TypeTransformer  # noqa: E402

_T_SNAP = list(TypeTransformer.registry._registry)


@ob('history-independence/registry', marks=['done'], budget=(60, 200),
    bounds='register a converter for a base class, optionally (solver bools) convert a subclass / the base / declare a Schema field of the '
           'subclass in between, register a second converter for the base (or the subclass), then convert a solver-picked class: the '
           'converter that runs must not depend on whether the in-between conversions happened')
def history_registry(V):
    def run(warm):
        TypeTransformer.registry._registry[:] = _T_SNAP
        TypeTransformer.registry._cache.clear()

        class Money:
            def __init__(self, v):
                self.v = v

        class Euro(Money):
            pass
        tag = lambda name: (lambda transformer, data, t, _n=name: t(_n))
        utype.register_transformer(Money)(tag('first'))
        if warm[0]:
            utype.type_transform(1, Euro)
        if warm[1]:
            utype.type_transform(1, Money)
        if warm[2]:
            class Holder(Schema):
                e: Euro = None
        utype.register_transformer(Euro if second_on_sub else Money, allow_subclasses=allow_sub)(tag('second'))
        target = Euro if convert_sub else Money
        try:
            return utype.type_transform(1, target).v
        except Exception as e:  # noqa
            return 'error:' + type(e).__name__
    second_on_sub = V.bool('second_on_subclass')
    allow_sub = V.bool('allow_subclasses')
    convert_sub = V.bool('convert_subclass')
    warm = (V.bool('warm_subclass'), V.bool('warm_base'), V.bool('declare_field'))
    try:
        got, want = run(warm), run((False, False, False))
    finally:
        TypeTransformer.registry._registry[:] = _T_SNAP
        TypeTransformer.registry._cache.clear()
    V.check(got == want, 'pure:outcome-depends-on-history:registry',
            lambda: 'second registration on %s (allow_subclasses=%r), converting %s: after warm-up %r the converter %r ran, without warm-up %r' % (
                'Euro' if second_on_sub else 'Money', allow_sub, 'Euro' if convert_sub else 'Money', warm, got, want))
    V.cover('done')


# ------------------------------------------------------------------ results never alias objects of the declaration
class ConstHolder(Schema):
    v: list = utype.Field(const=[1, [2]], default_factory=lambda: [1, [2]])
    d: dict = utype.Field(const={'k': [1]}, default_factory=lambda: {'k': [1]})
    e: list = utype.Field(enum=[[1], [2, 3]], default_factory=lambda: [1])
    lc: list = utype.Field(const=utype.Lax([7, [8]]), default_factory=list)


ALIAS_MUT = {
    'v': [lambda x: x.append(9), lambda x: x[1].append(9)],
    'd': [lambda x: x.__setitem__('z', 1), lambda x: x['k'].append(9)],
    'e': [lambda x: x.append(9)],
    'lc': [lambda x: x.append(9), lambda x: x[1].append(9)],
}


@ob('declaration-objects-not-shared', marks=['done'], budget=(40, 100),
    bounds='fields constrained by a mutable const (list with a nested list, dict), an enum of lists and a lax const: a parse result is '
           'mutated in place at a solver-picked position; the same input parsed again gives the pristine result and the same verdicts as '
           'before the mutation')
def declaration_objects_not_shared(V):
    fld = V.pick('field', sorted(ALIAS_MUT))
    inputs = {'v': [1, [2]], 'd': {'k': [1]}, 'e': [2, 3], 'lc': [0]}
    pristine = {'v': [1, [2]], 'd': {'k': [1]}, 'e': [2, 3], 'lc': [7, [8]]}
    first = ConstHolder(**{fld: inputs[fld]})
    got = first[fld]
    V.check(got == pristine[fld], 'pure:setup', lambda: repr(got))
    ALIAS_MUT[fld][V.pick('mutation', list(range(len(ALIAS_MUT[fld]))))](got)
    try:
        second = ('ok', ConstHolder(**{fld: {'v': [1, [2]], 'd': {'k': [1]}, 'e': [2, 3], 'lc': [0]}[fld]})[fld])
    except Exception as e:  # noqa
        second = ('err', type(e).__name__)
    V.check(second == ('ok', pristine[fld]), 'pure:result-aliases-declaration',
            lambda: 'field %s: after mutating the first result in place (now %r) the same input gives %r, before it gave %r' % (
                fld, got, second, pristine[fld]))
    V.cover('done')


# ------------------------------------------------------------------ every way of handing data to a data class
class Article(Schema):
    title: str = ''
    tags: list = utype.Field(default_factory=list)
    n: int = 0


@utype.dataclass
class ArticleDC:
    title: str = ''
    tags: list = utype.Field(default_factory=list)
    n: int = 0


SHAPES = ['mapping', 'mapping+keywords', 'keywords', '__from__', 'type_transform', 'mapping+overlapping-keywords']


@ob('input/call-shapes', marks=['accept', 'reject'], budget=(40, 120),
    bounds='Schema and @utype.dataclass classes called as T(mapping), T(mapping, **keywords), T(**keywords), T.__from__(mapping), '
           'type_transform(mapping, T), T(mapping, **keywords naming a key of the mapping); mapping and keyword values picked (valid, '
           'convertible, invalid, nested list): afterwards the caller\'s mapping and keyword dict hold exactly what they held before, '
           'and a second identical call gives the same outcome')
def input_call_shapes(V):
    cls = V.pick('cls', [Article, ArticleDC])
    shape = V.pick('shape', SHAPES)
    payload = {'title': V.pick('title', ['t', 5]), 'n': V.pick('n', ['3', 'x', 1])}
    if V.bool('payload_tags'):
        payload['tags'] = ['a', ['b']]
    kw = {'tags': ['x', ['y']]}
    if shape == 'mapping+overlapping-keywords':
        kw['n'] = 7
    p0, k0 = fresh(payload), fresh(kw)
    bp, bk = snap(payload), snap(kw)

    def call():
        try:
            if shape == 'mapping':
                r = cls(payload)
            elif shape in ('mapping+keywords', 'mapping+overlapping-keywords'):
                r = cls(payload, **kw)
            elif shape == 'keywords':
                r = cls(**payload)
            elif shape == '__from__':
                r = cls.__from__(payload) if hasattr(cls, '__from__') else type_transform(payload, cls)
            else:
                r = type_transform(payload, cls)
            return ('ok', dict(r) if isinstance(r, dict) else {k: v for k, v in r.__dict__.items() if not k.startswith('__')})
        except exc.ParseError as e:
            return ('err', type(e).__name__)
    first = call()
    det = lambda: '%s called as %s with mapping %r keywords %r: afterwards mapping %r keywords %r' % (cls.__name__, shape, p0, k0, payload, kw)
    V.check(payload == p0 and snap(payload) == bp, 'pure:input-mutated:mapping', det)
    V.check(kw == k0 and snap(kw) == bk, 'pure:input-mutated:keywords', det)
    second = call()
    V.check(first == second, 'pure:repeat-differs', lambda: det() + ' ; first %r second %r' % (first, second))
    V.cover('accept' if first[0] == 'ok' else 'reject')


# ------------------------------------------------------------------ (c'') process-wide state of the converters (text formats)
TEMPORAL_STRINGS = ['03/04/2021', '12/25/2020', '25/12/2020', '2021-03-04', '04.03.2021', '2021/03/04 05:06', '03-04-2021', '1/2/2003',
                    'Mar 4 2021', '20210304']
_REF_TEMPORAL = {}


def _fresh_process_outcome(s, target):
    """the conversion made as the FIRST conversion of a fresh interpreter (no earlier parse can have left anything behind)"""
    import os
    import subprocess
    import sys
    key = (s, target)
    if key not in _REF_TEMPORAL:
        repo = os.environ.get('UTYPE_REPO', '/repo')
        code = ('import sys, datetime\nsys.path.insert(0, %r)\nfrom utype.utils.transform import type_transform\n'
                'try:\n    print(repr(type_transform(%r, datetime.%s)))\nexcept Exception as e:\n    print("ERR", type(e).__name__)\n'
                % (repo, s, target))
        out = subprocess.run([sys.executable, '-c', code], stdout=subprocess.PIPE, stderr=subprocess.DEVNULL, timeout=60)
        _REF_TEMPORAL[key] = out.stdout.decode().strip()
    return _REF_TEMPORAL[key]


@ob('history-independence/text-formats', marks=['done'], budget=(60, 200),
    bounds='date / datetime from %d strings incl. day/month-ambiguous ones; 0..2 solver-picked earlier conversions of other strings, then '
           'a solver-picked conversion: the outcome (value or error class) equals the outcome of the same conversion made as the first '
           'conversion of a fresh interpreter' % len(TEMPORAL_STRINGS))
def history_text_formats(V):
    import datetime
    target = V.pick('target', ['date', 'datetime'])
    T = getattr(datetime, target)
    n = V.pick('n_before', [0, 1, 2])
    hist = [V.pick('h%d' % i, TEMPORAL_STRINGS) for i in range(n)]
    x = V.pick('x', TEMPORAL_STRINGS)
    with V.notrace():
        want = _fresh_process_outcome(x, target)
        for h in hist:
            try:
                type_transform(h, T)
            except Exception:  # noqa
                pass
        try:
            got = repr(type_transform(x, T))
        except Exception as e:  # noqa
            got = 'ERR ' + type(e).__name__
    V.check(got == want, 'pure:outcome-depends-on-history:text-format',
            lambda: '%s after %r: %r -> %s ; as the first conversion of a fresh interpreter -> %s' % (target, hist, x, got, want))
    V.cover('done')


# ------------------------------------------------------------------ lax length constraints on the caller's own list
class LaxTags(list, Rule):
    max_length = utype.Lax(2)


class LaxPair(list, Rule):
    length = utype.Lax(2)


class LaxHolder(Schema):
    tags: list = utype.Field(max_length=utype.Lax(2), default_factory=list)
    typed: List[int] = utype.Field(max_length=utype.Lax(2), default_factory=list)


@ob('input/lax-length', marks=['accept'], budget=(40, 100),
    bounds='list rules without an item type (max_length=Lax(2), length=Lax(2)), a Schema field `tags: list` and a typed List[int] field '
           'with max_length=Lax(2); input = the caller\'s list of 0..4 items (ints / a nested list): after the parse the caller\'s list '
           'holds exactly what it held (lax constraints shorten the result, never the input)')
def input_lax_length(V):
    n = V.pick('n', [0, 1, 2, 3, 4])
    x = [[9]] + list(range(n - 1)) if n else []
    keep = list(x)
    which = V.pick('which', ['LaxTags', 'LaxPair', 'field', 'typed-field'])
    try:
        if which == 'LaxTags':
            r = LaxTags(x)
        elif which == 'LaxPair':
            r = LaxPair(x)
        elif which == 'field':
            r = LaxHolder(tags=x).tags
        else:
            x = list(range(n))
            keep = list(x)
            r = LaxHolder(typed=x).typed
    except exc.ParseError:
        r = None
    V.check(x == keep and len(x) == n, 'pure:input-mutated:lax-length', lambda: '%s: the caller\'s list %r became %r (result %r)' % (which, keep, x, r))
    V.cover('accept')


# ------------------------------------------------------------------ (c''') the interpreter-wide decimal context
DEC_SNIPPETS = [
    "Rule.annotate(Decimal, constraints={'decimal_places': 2})(Decimal('1234567890123456789012345678'))",
    "Rule.annotate(Decimal, constraints={'decimal_places': Lax(2)})(Decimal('123456789012345678901234567.891'))",
    "Rule.annotate(Decimal, constraints={'multiple_of': 3})(Decimal(10 ** 30 + 1))",
    "Rule.annotate(Decimal, constraints={'max_digits': Lax(5)})(Decimal('1234.56789'))",
    "Rule.annotate(Decimal, constraints={'multiple_of': Lax(0.3)})(Decimal('1E+30'))",
    "type_transform('1' * 40, Decimal) / 3",
]
_REF_DEC = {}
_DEC_PRELUDE = 'from decimal import Decimal\nfrom utype import Rule, Lax\nfrom utype.utils.transform import type_transform\n'


def _dec_outcome(snippet):
    import decimal
    ns = {}
    exec(_DEC_PRELUDE, ns)
    try:
        return repr(eval(snippet, ns))
    except Exception as e:  # noqa
        return 'ERR ' + type(e).__name__


def _dec_fresh(snippet):
    import os
    import subprocess
    import sys
    if snippet not in _REF_DEC:
        repo = os.environ.get('UTYPE_REPO', '/repo')
        code = ('import sys\nsys.path.insert(0, %r)\n' % repo) + _DEC_PRELUDE + \
               'try:\n    print(repr(%s))\nexcept Exception as e:\n    print("ERR", type(e).__name__)\n' % snippet
        out = subprocess.run([sys.executable, '-c', code], stdout=subprocess.PIPE, stderr=subprocess.DEVNULL, timeout=60)
        _REF_DEC[snippet] = out.stdout.decode().strip()
    return _REF_DEC[snippet]


@ob('history-independence/decimal-context', marks=['done'], budget=(60, 200),
    bounds='%d Decimal parses that need more than the default 28 digits of working precision (decimal_places, lax decimal_places / '
           'max_digits / multiple_of, a 40-digit quotient); 0..2 solver-picked earlier parses, then a solver-picked one: its outcome '
           'equals the outcome in a fresh interpreter, and the interpreter-wide decimal context (precision, rounding, traps) is as it '
           'was before' % len(DEC_SNIPPETS))
def history_decimal_context(V):
    import decimal
    n = V.pick('n_before', [0, 1, 2])
    hist = [V.pick('h%d' % i, list(range(len(DEC_SNIPPETS)))) for i in range(n)]
    x = V.pick('x', list(range(len(DEC_SNIPPETS))))
    with V.notrace():
        ctx = decimal.getcontext()
        before = (ctx.prec, ctx.rounding, ctx.Emin, ctx.Emax, dict(ctx.traps))
        want = _dec_fresh(DEC_SNIPPETS[x])
        for h in hist:
            _dec_outcome(DEC_SNIPPETS[h])
        got = _dec_outcome(DEC_SNIPPETS[x])
        ctx = decimal.getcontext()
        after = (ctx.prec, ctx.rounding, ctx.Emin, ctx.Emax, dict(ctx.traps))
        if after != before:
            ctx.prec, ctx.rounding = before[0], before[1]      # (so that the next path of this process starts clean)
    V.check(after == before, 'pure:decimal-context-changed', lambda: 'after %r then %r: context %r -> %r' % (hist, x, before[:2], after[:2]))
    V.check(got == want, 'pure:outcome-depends-on-history:decimal-context',
            lambda: 'after snippets %r: %s -> %s ; in a fresh interpreter -> %s' % (hist, DEC_SNIPPETS[x], got, want))
    V.cover('done')
