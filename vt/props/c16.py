"""C16 -- converter resolution is a pure function of the registrations made so far"""
import utype
from utype.utils.base import TypeRegistry
from utype.utils.transform import TypeTransformer, type_transform
from vt.ob import ob
from vt.h import attempt

PROP = 'C16'
ASSUMPTIONS = [
    'reference: among the registrations whose own criteria match the class (exact / subclass / metaclass / attr / '
    'detector), the highest priority wins and the most recent wins ties; a registry with no match falls back to its '
    'base registry, then to its default',
    'public-API obligation: the shared transformer/encoder registries are restored to their import-time content at '
    'the start of every path (isolation between paths only)',
]


class Meta(type):
    pass


class A:
    pass


class B(A):
    marker = 1


class C(B):
    pass


class X(metaclass=Meta):
    pass


class XM(metaclass=Meta):
    marker = 2


CLASSES = [A, B, C, X]
NAMES = ['A', 'B', 'C', 'X']


def mk_fn(i):
    def f(*a):
        return ('f%d' % i,) + a
    f.__name__ = 'f%d' % i
    return f


def matches(reg, t):
    kind, cls, allow_sub = reg['kind'], reg['cls'], reg['allow_sub']
    if kind == 'class':
        return issubclass(t, cls) if allow_sub else t is cls
    if kind == 'attr':
        return hasattr(t, 'marker')
    if kind == 'meta':
        return isinstance(t, Meta)
    if kind == 'detector':
        return t is cls
    if kind == 'class+attr':      # all given criteria must hold together
        return (issubclass(t, cls) if allow_sub else t is cls) and hasattr(t, 'marker')
    if kind == 'class+meta':
        return (issubclass(t, (cls, X)) if allow_sub else (t is cls or t is X)) and isinstance(t, Meta)
    if kind == 'attr+meta':
        return hasattr(t, 'marker') and isinstance(t, Meta)
    if kind == 'raising':   # a detector that raises TypeError / ValueError for a class simply does not match it
        return 'B' in t.__name__ or t is cls
    if kind == 'two':       # register(A-or-whatever, X): classes tuple
        return issubclass(t, (cls, X)) if allow_sub else (t is cls or t is X)
    raise AssertionError(kind)


def ref_resolve(regs, t):
    best = None
    for r in regs:          # regs in registration order
        if matches(r, t):
            if best is None or r['prio'] >= best['prio']:
                best = r
    return best['fn'] if best else None


def do_register(reg, r):
    kind, cls = r['kind'], r['cls']
    kw = dict(allow_subclasses=r['allow_sub'], priority=r['prio'])
    if kind == 'class':
        reg.register(cls, **kw)(r['fn'])
    elif kind == 'attr':
        reg.register(attr='marker', priority=r['prio'])(r['fn'])
    elif kind == 'meta':
        reg.register(metaclass=Meta, priority=r['prio'])(r['fn'])
    elif kind == 'detector':
        reg.register(detector=lambda t, c=cls: t is c, priority=r['prio'])(r['fn'])
    elif kind == 'raising':
        reg.register(detector=lambda t, c=cls: t is c or t.__name__.index('B') >= 0, priority=r['prio'])(r['fn'])
    elif kind == 'class+attr':
        reg.register(cls, attr='marker', **kw)(r['fn'])
    elif kind == 'class+meta':
        reg.register(cls, X, metaclass=Meta, **kw)(r['fn'])
    elif kind == 'attr+meta':
        reg.register(attr='marker', metaclass=Meta, priority=r['prio'])(r['fn'])
    else:
        reg.register(cls, X, **kw)(r['fn'])


def patterns(k):
    """operation-kind sequences of length k that end with a resolve and contain a register"""
    import itertools
    return [''.join(p) + 'Q' for p in itertools.product('RQ', repeat=k - 1) if 'R' in p]


def history(V, reg, pattern, kinds, reg_classes, res_classes, fallback=None, first_kind=None):
    regs = []
    for step, op in enumerate(pattern):
        if op == 'Q':
            t = V.pick('t%d' % step, res_classes)
            got = reg.resolve(t)
            want = ref_resolve(regs, t)
            if want is None and fallback is not None:
                want = fallback(t)
            V.check(got is want, 'resolve:%s' % ('wrong' if got is not None and want is not None else 'none'),
                    lambda: 'after %s: resolve(%s) -> %s, reference %s' % (
                        [(r['kind'], r['cls'].__name__, r['allow_sub'], r['prio'], r['fn'].__name__) for r in regs],
                        t.__name__, getattr(got, '__name__', got), getattr(want, '__name__', want)))
            if regs:
                V.cover('resolved-after-register')
        else:
            r = {'kind': first_kind if first_kind and not regs else V.pick('kind%d' % step, kinds) if len(kinds) > 1 else kinds[0],
                 'cls': V.pick('cls%d' % step, reg_classes),
                 'allow_sub': V.bool('sub%d' % step), 'prio': V.int('prio%d' % step, -1, 1), 'fn': mk_fn(step)}
            if len(regs) == 1 and len(pattern) <= 4 and V.bool('same_fn%d' % step):
                # the same callable registered again under other criteria: both registrations stand
                r['fn'] = regs[0]['fn']
            do_register(reg, r)
            regs.append(r)
    return regs


def _mk_class(pattern, three):
    def h(V):
        reg = TypeRegistry('t', cache=True)
        history(V, reg, pattern, ['class'], [A, B, C] if three else [A, B], [A, B, C, X] if three else [A, B, X])
    return h


for _p in patterns(4):
    ob('registry/class/' + _p, marks=['resolved-after-register'], budget=(100, 300),
       bounds='fresh TypeRegistry(cache=True); operation sequence %s (R = register(class in {A, B<A}, '
              'allow_subclasses bool, priority symbolic in -1..1, the callable fresh or the one of the first registration), Q = resolve(class in {A, B, X})); identity of the '
              'resolved function compared with the cache-free reference after every resolve' % _p,
       out='histories longer than 4 (thorough 5)')(_mk_class(_p, False))
for _p in patterns(3):
    ob('registry/class3/' + _p, marks=['resolved-after-register'], budget=(60, 200),
       bounds='as registry/class with the three-level hierarchy A > B > C, sequence %s' % _p)(_mk_class(_p, True))
for _p in [q for q in patterns(5) if q.count('R') <= 3]:
    ob('registry/class/' + _p, marks=['resolved-after-register'], budget=(60, 500), thorough_only=True, exhaustive=(True, False),
       bounds='as registry/class, sequence %s' % _p)(_mk_class(_p, False))


KINDS = ['class', 'attr', 'meta', 'detector', 'two', 'class+attr', 'class+meta', 'attr+meta', 'raising']


def _mk_criteria(pattern, first_kind):
    def h(V):
        reg = TypeRegistry('t', cache=True)
        history(V, reg, pattern, KINDS if len(pattern) <= 3 else ['class', 'attr', 'meta', 'class+attr'], [A, B], [A, B, C, X, XM],
                first_kind=first_kind)
    return h


for _p in patterns(3) + patterns(4):
    for _k in KINDS:
        ob('registry/criteria/%s/%s' % (_p, _k), marks=['resolved-after-register'], budget=(90, 400), thorough_only=len(_p) > 3,
           exhaustive=(True, len(_p) <= 3),
           bounds='registration criteria picked from {class, attr="marker", metaclass, detector, two classes, class+attr, '
                  'classes+metaclass, attr+metaclass (combined criteria must hold together), a detector that raises ValueError for some '
                  'classes (= no match)} (the first registration is %s); '
                  'sequence %s; resolve over {A, B(has marker), C, X(metaclass Meta), XM(metaclass and marker)}' % (_k, _p))(
            _mk_criteria(_p, _k))


def _mk_base(pattern):
    def h(V):
        base = TypeRegistry('base', cache=True)
        fb = mk_fn(99)
        base.register(A)(fb)
        reg = TypeRegistry('t', cache=True, base=base, shortcut='__conv__')
        history(V, reg, pattern, ['class'], [A, B], [A, B, X], fallback=lambda t: fb if issubclass(t, A) else None)

        class S(A):
            __conv__ = staticmethod(mk_fn(77))
        got = reg.resolve(S)
        V.check(getattr(got, '__name__', None) == 'f77', 'resolve:shortcut', lambda: repr(got))
    return h


for _p in patterns(3):
    ob('registry/base-shortcut/' + _p, marks=['resolved-after-register'], budget=(60, 200),
       bounds='registry with a base registry (A registered there) and a shortcut attribute; sequence %s; a miss '
              'falls back to the base; a class carrying the shortcut attribute resolves to it' % _p)(_mk_base(_p))


# ---- through the public API: register_transformer + type_transform, register_encoder + JSONEncoder
_T_SNAP = list(TypeTransformer.registry._registry)
_E_SNAP = list(utype.utils.encode.encoder_registry._registry)


def _restore():
    TypeTransformer.registry._registry[:] = _T_SNAP
    TypeTransformer.registry._cache.clear()
    utype.utils.encode.encoder_registry._registry[:] = _E_SNAP
    utype.utils.encode.encoder_registry._cache.clear()


def _mk_public_transformer(pattern):
    def h(V):
        _restore()

        class PA:
            def __init__(self, v=None):
                self.v = v

        class PB(PA):
            pass
        classes = [PA, PB]
        regs = []
        try:
            for step, op in enumerate(pattern):
                if op == 'Q':
                    t = V.pick('t%d' % step, classes)
                    want = ref_resolve(regs, t)
                    r = attempt(type_transform, 5, t)
                    if want is None:
                        V.check(r[0] != 'ok', 'public:converted-without-registration', lambda: repr(r))
                    else:
                        V.check(r[0] == 'ok' and r[1] == want.tag, 'public:wrong-converter',
                                lambda: 'after %s convert(%s) -> %r, reference %s' % (
                                    [(x['cls'].__name__, x['allow_sub'], x['prio'], x['fn'].tag) for x in regs],
                                    t.__name__, r, want.tag))
                        V.cover('converted-after-register')
                else:
                    def fn(transformer, data, t, _tag='g%d' % step):
                        return _tag
                    fn.tag = 'g%d' % step
                    x = {'kind': 'class', 'cls': V.pick('cls%d' % step, classes), 'allow_sub': V.bool('sub%d' % step),
                         'prio': V.int('prio%d' % step, -1, 1), 'fn': fn}
                    utype.register_transformer(x['cls'], allow_subclasses=x['allow_sub'], priority=x['prio'])(fn)
                    regs.append(x)
        finally:
            _restore()
    return h


for _p in patterns(4):
    ob('public/transformer/' + _p, marks=['converted-after-register'], budget=(90, 300),
       bounds='utype.register_transformer + type_transform on per-path classes PA, PB<PA: sequence %s of '
              'register(class, allow_subclasses, priority -1..1) / convert(class); the tag of the converter that '
              'ran is compared with the reference' % _p,
       out='histories longer than 4')(_mk_public_transformer(_p))


def _mk_public_encoder(pattern):
    def h(V):
        import json
        _restore()

        class EA:
            pass

        class EB(EA):
            pass
        classes = [EA, EB]
        regs = []
        try:
            for step, op in enumerate(pattern):
                if op == 'Q':
                    t = V.pick('t%d' % step, classes)
                    want = ref_resolve(regs, t)
                    r = attempt(json.dumps, t(), cls=utype.JSONEncoder)
                    if want is None:
                        V.check(r[0] != 'ok', 'public:encoded-without-registration', lambda: repr(r))
                    else:
                        V.check(r[0] == 'ok' and r[1] == json.dumps(want.tag), 'public:wrong-encoder',
                                lambda: 'encode(%s) -> %r, reference %s' % (t.__name__, r, want.tag))
                        V.cover('encoded-after-register')
                else:
                    def fn(o, _tag='e%d' % step):
                        return _tag
                    fn.tag = 'e%d' % step
                    x = {'kind': 'class', 'cls': V.pick('cls%d' % step, classes), 'allow_sub': V.bool('sub%d' % step),
                         'prio': V.int('prio%d' % step, -1, 1), 'fn': fn}
                    utype.register_encoder(x['cls'], allow_subclasses=x['allow_sub'], priority=x['prio'])(fn)
                    regs.append(x)
        finally:
            _restore()
    return h


for _p in patterns(4):
    ob('public/encoder/' + _p, marks=['encoded-after-register'], budget=(90, 300),
       bounds='utype.register_encoder + json.dumps(cls=JSONEncoder) on per-path classes EA, EB<EA: sequence %s' % _p,
       out='histories longer than 4')(_mk_public_encoder(_p))


# ---- conversions that reach the type through a declaration made earlier (field, parameter, generic argument)
ROUTES = ['type_transform', 'schema-field', 'function-parameter', 'generic-argument', 'list-field']


@ob('public/declared-routes', marks=['done'], budget=(60, 200),
    bounds='class P gets a converter, then a Schema (p: P, ps: List[P]), a @parse function (p: P) and Rule.annotate(list, P) are '
           'declared and used once; P (or, solver-picked, its base class) is registered again (same or higher priority); the next '
           'conversion through each route -- type_transform, the Schema field, the function parameter, the generic argument, the '
           'List[P] field -- must use the new converter')
def public_declared_routes(V):
    from typing import List
    _restore()
    try:
        class Base0:
            def __init__(self, v=None):
                self.v = v

        class P(Base0):
            pass

        def a(transformer, data, t):
            return t(('a', data))

        def b(transformer, data, t):
            return t(('b', data))
        utype.register_transformer(P)(a)

        class S(utype.Schema):
            p: P = None
            ps: List[P] = utype.Field(default_factory=list)

        @utype.parse
        def f(p: P):
            return p
        L = utype.Rule.annotate(list, P)
        use = {'type_transform': lambda: type_transform(1, P).v, 'schema-field': lambda: S(p=1).p.v,
               'function-parameter': lambda: f(1).v, 'generic-argument': lambda: L([1])[0].v, 'list-field': lambda: S(ps=[1]).ps[0].v}
        route = V.pick('route', ROUTES)
        if V.bool('used_before'):
            V.check(use[route]() == ('a', 1), 'public:setup', lambda: route)
        target = V.pick('register_for', ['P', 'base-with-higher-priority'])
        if target == 'P':
            utype.register_transformer(P, priority=V.pick('priority', [0, 1]))(b)
        else:
            utype.register_transformer(Base0, priority=1)(b)
        got = attempt(use[route])
        label = 'compiled-generic-argument' if route in ('generic-argument', 'list-field') else route
        V.check(got == ('ok', ('b', 1)), 'public:stale-converter:' + label,
                lambda: 'after re-registering for %s, a conversion through %s -> %r (expected the new converter b)' % (target, route, got))
        V.cover('done')
    finally:
        _restore()


@ob('registry/reentrant-registration', marks=['done'], budget=(40, 120),
    bounds='a detector that, when first consulted for class A, registers a dedicated converter for A (a lazily loaded plug-in) and then '
           'answers True or False (solver-picked); 0..1 earlier lookups of another class: the lookup after the one that triggered the '
           'registration resolves A by the registrations made so far (the in-flight scan of the old list must not be cached)')
def reentrant_registration(V):
    reg = TypeRegistry('t', cache=True)
    f_old, f_new, f_det = mk_fn(0), mk_fn(1), mk_fn(2)
    answer = V.bool('detector_answer')
    state = {'done': False}

    def det(t):
        if t is A and not state['done']:
            state['done'] = True
            reg.register(A, allow_subclasses=False)(f_new)
        return answer and t is A
    if V.bool('older_registration'):
        reg.register(A)(f_old)
    reg.register(detector=det)(f_det)
    if V.bool('lookup_other_first'):
        reg.resolve(X)
    first = reg.resolve(A)
    second = reg.resolve(A)
    third = reg.resolve(A)
    # f_new is the most recent registration matching A (priority 0, like the others)
    det_ = lambda: 'first lookup -> %s, second -> %s, third -> %s' % tuple(getattr(x, '__name__', x) for x in (first, second, third))
    V.check(second is f_new and third is f_new, 'resolve:stale-after-reentrant-registration', det_)
    V.cover('done')
