"""C12 -- conversion preferences only restrict, and keep their promises"""
import enum
import uuid
from datetime import date, datetime, time, timedelta
from decimal import Decimal
from typing import Dict, List, Optional, Tuple, Union

from utype import Field as utype_Field
from utype import Options, Rule, Schema
from utype.utils.transform import TypeTransformer, type_transform
from vt.ob import ob
from vt.values import Color, value

PROP = 'C12'
ASSUMPTIONS = [
    'primitive groups as documented (docs/en/references/options.md): null = None; boolean = bool, 0, 1; number = int / float / '
    'Decimal; string = str / bytes-likes; array = list / tuple / set / frozenset; object = dict / mappings. Documented '
    'exceptions under no_explicit_cast: Decimal from str; date / datetime / time / timedelta from their string and number '
    '(timestamp) forms. Other source kinds (Enum members, UUID, date objects, arbitrary objects) are not classified and only the '
    '"restrict" clause is asserted for them',
    'equality of results across flag sets: == plus same type (NaN equals NaN)',
]


class IntSub(int):
    pass


class StrSub(str):
    pass


class Level(int, enum.Enum):
    low = 1
    high = 2


class Grade(float, enum.Enum):
    half = 0.5
    one = 1.0


class ListSub(list):
    pass


class DictSub(dict):
    pass


class DC(Schema):
    x: int = 0
    y: List[int] = None


class DC_cast(DC):
    __options__ = Options(no_explicit_cast=True)


class DC_loss(DC):
    __options__ = Options(no_data_loss=True)


class DC_both(DC):
    __options__ = Options(no_explicit_cast=True, no_data_loss=True)


DC_VARIANTS = {(): DC, ('no_explicit_cast',): DC_cast, ('no_data_loss',): DC_loss, ('no_data_loss', 'no_explicit_cast'): DC_both}


TARGETS = {
    'int': int, 'float': float, 'str': str, 'bool': bool, 'none': type(None), 'bytes': bytes, 'decimal': Decimal,
    'list': list, 'tuple': tuple, 'set': set, 'frozenset': frozenset, 'dict': dict,
    'date': date, 'datetime': datetime, 'time': time, 'timedelta': timedelta, 'uuid': uuid.UUID, 'enum': Color,
    'IntEnum': Level, 'FloatEnum': Grade, 'Optional[int]': Rule.parse_annotation(Optional[int]),
    'IntSub': IntSub, 'StrSub': StrSub, 'ListSub': ListSub, 'DictSub': DictSub,
    'List[int]': Rule.parse_annotation(List[int]), 'Tuple[int,str]': Rule.parse_annotation(Tuple[int, str]),
    'Dict[str,int]': Rule.parse_annotation(Dict[str, int]), 'DC': DC,
    'int|Decimal': Rule.any_of(int, Decimal), 'int|str': Rule.any_of(int, str), 'int|float': Rule.any_of(int, float),
    'str|List[int]': Rule.parse_annotation(Union[str, List[int]]), 'date|datetime': Rule.parse_annotation(Union[date, datetime]),
}
UNION_ARMS = {'int|Decimal': (int, Decimal), 'int|str': (int, str), 'int|float': (int, float)}
TARGET_GROUP = {'int': 'number', 'float': 'number', 'decimal': 'number', 'IntSub': 'number', 'str': 'string', 'bytes': 'string',
                'StrSub': 'string', 'bool': 'boolean', 'none': 'null', 'list': 'array', 'tuple': 'array', 'set': 'array',
                'frozenset': 'array', 'ListSub': 'array', 'dict': 'object', 'DictSub': 'object'}
TEMPORAL = ('date', 'datetime', 'time', 'timedelta')
TRUE_FALSE = set(TypeTransformer.TRUE_VALUES) | set(TypeTransformer.FALSE_VALUES)


def groups_of(x):
    """set of primitive groups x belongs to (bool, 0 and 1 are both boolean and number); None if unclassified"""
    import collections
    if x is None:
        return {'null'}
    if isinstance(x, bool):
        return {'boolean', 'number'}
    if isinstance(x, int):
        return {'boolean', 'number'} if (x == 0 or x == 1) else {'number'}
    if isinstance(x, (float, Decimal)):
        try:
            unit = x == 0 or x == 1
        except ArithmeticError:      # signalling NaN
            unit = False
        return {'number', 'boolean'} if unit else {'number'}
    if isinstance(x, (str, bytes, bytearray, memoryview)):
        return {'string'}
    if isinstance(x, (list, tuple, set, frozenset)):
        return {'array'}
    if isinstance(x, dict):
        return {'object'}
    return None


def same(a, b):
    if type(a) is not type(b):
        return False
    if isinstance(a, (float, Decimal)):
        try:
            return a == b or (a != a and b != b)
        except ArithmeticError:      # signalling NaN
            return str(a) == str(b)
    if isinstance(a, (list, tuple)):
        return len(a) == len(b) and all(same(p, q) for p, q in zip(a, b))
    if type(a) is dict:
        return len(a) == len(b) and all(k in b and same(a[k], b[k]) for k in a)
    return a == b


def conv(x, T, **flags):
    try:
        if T is DC:
            # a data class parses with its own class options (runtime options do not reach it unless override=True)
            r = type_transform(x, DC_VARIANTS[tuple(sorted(flags))], Options(**flags))
            return ('ok', dict(r))
        return ('ok', type_transform(x, T, Options(**flags)))
    except Exception as e:  # noqa
        return ('err', type(e).__name__)


def has_iterator(x, depth=0):
    if hasattr(x, '__next__'):
        return True
    if depth < 3 and isinstance(x, (list, tuple, set, frozenset)) or type(x).__name__ == 'deque':
        return any(has_iterator(e, depth + 1) for e in x)
    if depth < 3 and isinstance(x, dict):
        return any(has_iterator(e, depth + 1) for e in x.values())
    return False


def refresh(x):
    """iterators are consumed by a conversion: every attempt gets its own"""
    import collections
    if hasattr(x, '__next__'):
        return None
    return x


def _prefs(V, tname):
    T = TARGETS[tname]
    x = value(V, sym_int=tname in ('int', 'bool', 'str', 'none', 'list', 'tuple', 'IntSub', 'StrSub', 'List[int]'))
    if has_iterator(x):
        return                  # an iterator is consumed by the first conversion
    if isinstance(x, Decimal) and x.is_snan():
        return                  # CrossHair's Decimal model raises on comparisons with a signalling NaN
    plain = conv(x, T)
    cast = conv(x, T, no_explicit_cast=True)
    loss = conv(x, T, no_data_loss=True)
    both = conv(x, T, no_explicit_cast=True, no_data_loss=True)
    det = lambda: '%s <- %r (%s): default %r ; no_explicit_cast %r ; no_data_loss %r ; both %r' % (
        tname, x, type(x).__name__, plain, cast, loss, both)
    # --- 1. the flags only restrict
    flagsets = {'no_explicit_cast': dict(no_explicit_cast=True), 'no_data_loss': dict(no_data_loss=True),
                'both': dict(no_explicit_cast=True, no_data_loss=True)}
    for label, r in (('no_explicit_cast', cast), ('no_data_loss', loss), ('both', both)):
        if r[0] == 'ok':
            V.check(plain[0] == 'ok', 'restrict:accepted-only-with-' + label, det)
            suffix = ''
            if tname in UNION_ARMS and plain[0] == 'ok' and not same(r[1], plain[1]):
                # which argument produced the default result, and could it still convert x under this flag set?
                arm = [a for a in UNION_ARMS[tname] if type(plain[1]) is a]
                still = arm and conv(x, arm[0], **flagsets[label])[0] == 'ok'
                suffix = ':union-arm-still-available' if still else ':union-arm-unavailable-under-flags'
            V.check(same(r[1], plain[1]), 'restrict:different-value-with-' + label + suffix, det)
    if both[0] == 'ok':
        V.check(cast[0] == 'ok' and loss[0] == 'ok', 'restrict:both-accepts-more-than-each', det)
    # --- 2. no_data_loss promises
    g = groups_of(x)
    if loss[0] == 'ok':
        y = loss[1]
        if tname in ('int', 'IntSub', 'IntEnum', 'Optional[int]') and isinstance(x, (int, float, Decimal)) and not isinstance(x, bool):
            V.check(y == x, 'loss:int-value-changed', det)
        if tname == 'List[int]' and isinstance(x, (list, tuple)) and len(y) == len(x):
            for xi, yi in zip(x, y):
                if isinstance(xi, (int, float, Decimal)) and not isinstance(xi, bool):
                    V.check(yi == xi, 'loss:int-value-changed:element', det)
        if tname == 'bool' and not isinstance(x, bool):
            unambiguous = (isinstance(x, (int, float, Decimal)) and (x == 0 or x == 1)) or \
                          (isinstance(x, str) and x.lower() in TRUE_FALSE) or \
                          (isinstance(x, (bytes, bytearray)) and bytes(x).decode('utf8', 'replace').lower() in TRUE_FALSE)
            V.check(unambiguous, 'loss:ambiguous-bool', det)
        if g == {'array'} and len(x) > 1 and tname in TARGET_GROUP and TARGET_GROUP[tname] not in ('array', 'object'):
            V.check(False, 'loss:collection-collapsed', det)
        if tname in ('str', 'StrSub') and isinstance(x, (bytes, bytearray, memoryview)):
            try:
                bytes(x).decode()
                strict_ok = True
            except UnicodeDecodeError:
                strict_ok = False
            V.check(strict_ok, 'loss:lenient-bytes-decoding', det)
        if tname == 'date':
            V.check(not isinstance(x, datetime), 'loss:datetime-became-date', det)
            if isinstance(x, str):
                import re as _re
                midnight = bool(_re.search(r'[ T]00:00(:00(\.0+)?)?(Z| ?[+-]\d\d:?\d\d)?$', x.strip()))
                V.check(':' not in x, 'loss:timed-string-became-date' + (':midnight' if midnight else ''), det)
            if isinstance(x, (bytes, bytearray)):
                V.check(b':' not in bytes(x), 'loss:timed-string-became-date', det)
            if isinstance(x, (int, float, Decimal)) and not isinstance(x, bool):
                frac = float(x % 86400)
                V.check(not (1e-6 <= frac <= 86400 - 1e-6), 'loss:timed-timestamp-became-date', det)   # below a microsecond there is no time part
        if tname == 'Tuple[int,str]' and g == {'array'}:
            V.check(len(x) <= 2, 'loss:extra-tuple-items-accepted', det)
        if tname == 'DC' and isinstance(x, dict):
            V.check(all(k in ('x', 'y') for k in x), 'loss:unknown-key-accepted', det)
    # --- 3. no_explicit_cast promises
    if cast[0] == 'ok' and g is not None and tname in TARGET_GROUP:
        tg = TARGET_GROUP[tname]
        allowed = tg in g or (tname == 'decimal' and 'string' in g)
        V.check(allowed, 'cast:cross-group:%s<-%s' % (tg, '/'.join(sorted(g))), det)
    if cast[0] == 'ok' and g is not None and tname in TEMPORAL:
        V.check(bool(g & {'string', 'number'}), 'cast:cross-group:temporal<-' + '/'.join(sorted(g)), det)
    V.cover('both' if both[0] == 'ok' else 'plain-only' if plain[0] == 'ok' else 'reject')


for _t in TARGETS:
    ob('prefs/' + _t, marks=['reject'] if _t in ('uuid',) else ['both'] if _t in ('list', 'tuple', 'set', 'frozenset', 'ListSub', 'str', 'bytes', 'StrSub', 'bool', 'int|str', 'str|List[int]') else ['both', 'reject'], budget=(35, 400), per_path=(10, 20),
       exhaustive=False,
       bounds='target %s; source from the shared value generator (solver ints, special floats, numeric / structured / temporal '
              'vocabulary strings, symbolic strings <= 2 chars for cheap targets, bytes-likes, 30 hostile objects incl. Decimal / date / '
              'datetime / Enum / UUID literals, lists / tuples / sets / deques of <= 3 and dicts of <= 2 small atoms); the same source '
              'converted under {}, {no_explicit_cast}, {no_data_loss}, {both}' % _t,
       out='tree not expected to close (solver-driven exploration, every path replayed); float -> int value clause is exact only '
           'for the picked float values; text parsing beyond the vocabularies')((lambda t: lambda V: _prefs(V, t))(_t))


# ------------------------------------------------------------------ collections holding data-class instances
@ob('prefs/DC-collections', marks=['plain-only'], budget=(40, 120),
    bounds='target data class DC (x: int = 0, y: List[int] = None); source = list / tuple of 1..3 elements picked from {an instance, another '
           'instance, a dict, a dict with an unknown key}: under no_data_loss a collection of more than one element never collapses to a '
           'single instance, and the flags only restrict')
def prefs_dc_collections(V):
    n = V.pick('n', [1, 2, 3])
    idx = [V.pick('i%d' % i, [0, 1, 2, 3]) for i in range(n)]
    as_tuple = V.bool('as_tuple')

    def run(**flags):
        # (a data class parses with its own class options: the instances are instances of the class variant under test)
        cls = DC_VARIANTS[tuple(sorted(flags))]
        pool = [cls(x=1), cls(x=2, y=[1]), {'x': 3}, {'x': 4, 'zz': 1}]
        items = [pool[i] for i in idx]
        x = tuple(items) if as_tuple else items
        try:
            return x, ('ok', dict(type_transform(x, cls, Options(**flags))))
        except Exception as e:  # noqa
            return x, ('err', type(e).__name__)
    x, plain = run()
    _, cast = run(no_explicit_cast=True)
    _, loss = run(no_data_loss=True)
    _, both = run(no_explicit_cast=True, no_data_loss=True)
    det = lambda: 'DC <- %r: default %r ; no_explicit_cast %r ; no_data_loss %r ; both %r' % (x, plain, cast, loss, both)
    for label, r in (('no_explicit_cast', cast), ('no_data_loss', loss), ('both', both)):
        if r[0] == 'ok':
            V.check(plain[0] == 'ok' and same(r[1], plain[1]), 'restrict:different-value-with-' + label, det)
    if loss[0] == 'ok':
        V.check(len(x) <= 1, 'loss:collection-collapsed', det)
    if cast[0] == 'ok':
        V.check(False, 'cast:cross-group:object<-array', det)
    V.cover('both' if both[0] == 'ok' else 'plain-only' if plain[0] == 'ok' else 'reject')


# ------------------------------------------------------------------ unknown keys beside aliased fields
class DA(Schema):
    name: str = ''
    user_id: int = utype_Field(alias='uid', alias_from=['user', 'u'], default=0)


class DA_loss(DA):
    __options__ = Options(no_data_loss=True)


DA_KEYS = ['name', 'uid', 'user_id', 'user', 'role', 'zz']


@ob('prefs/DC-unknown-keys', marks=['both', 'plain-only'], budget=(40, 120),
    bounds='data class with an aliased field (alias + two alias_from spellings) with and without no_data_loss; input = solver-chosen subset '
           'of %r with int / str values: under no_data_loss an input holding an unknown key (role, zz) is rejected, whatever else it '
           'holds; an input accepted under no_data_loss is accepted without it with the same fields' % DA_KEYS)
def prefs_dc_unknown_keys(V):
    data = {}
    for k in DA_KEYS:
        if V.bool('has_' + k):
            data[k] = 'n' if k == 'name' else 3
    spellings = [k for k in ('uid', 'user_id', 'user') if k in data]
    if len(spellings) > 1:
        return          # several spellings of one field: alias conflicts are C06's subject
    try:
        plain = ('ok', dict(DA(**data)))
    except Exception as e:  # noqa
        plain = ('err', type(e).__name__)
    try:
        loss = ('ok', dict(DA_loss(**data)))
    except Exception as e:  # noqa
        loss = ('err', type(e).__name__)
    det = lambda: 'DA(**%r): default %r ; no_data_loss %r' % (data, plain, loss)
    if loss[0] == 'ok':
        V.check('role' not in data and 'zz' not in data, 'loss:unknown-key-accepted', det)
        V.check(plain[0] == 'ok' and plain[1] == loss[1], 'restrict:different-value-with-no_data_loss', det)
    V.cover('both' if loss[0] == 'ok' else 'plain-only' if plain[0] == 'ok' else 'reject')


# ------------------------------------------------------------------ extra tuple items under every spelling of no_data_loss
class StrictOptions(Options):
    no_data_loss = True


TUPLE_OPTS = {
    'no_data_loss': lambda: Options(no_data_loss=True),
    'no_data_loss+addition=True': lambda: Options(no_data_loss=True, addition=True),
    'no_data_loss+addition=int': lambda: Options(no_data_loss=True, addition=int),
    'subclass-attribute': lambda: StrictOptions(),
    'none': lambda: Options(),
}


@ob('prefs/tuple-extra-items', marks=['both', 'plain-only'], budget=(40, 100),
    bounds='Tuple[int, str] from lists / tuples of 2..4 items under Options(no_data_loss=True), the same with addition=True / addition=int, '
           'and an Options subclass that declares no_data_loss = True as a class attribute: extra items are rejected under every '
           'spelling; what is accepted under the flag is accepted, equal, without it')
def prefs_tuple_extra_items(V):
    T = Rule.parse_annotation(Tuple[int, str])
    x = V.pick('x', [[1, 'a'], (1, 'a'), [1, 'a', 3], (1, 'a', 3, 4), ['1', 'a', None]])
    name = V.pick('options', sorted(TUPLE_OPTS))
    try:
        r = ('ok', type_transform(x, T, TUPLE_OPTS[name]()))
    except Exception as e:  # noqa
        r = ('err', type(e).__name__)
    try:
        plain = ('ok', type_transform(x, T))
    except Exception as e:  # noqa
        plain = ('err', type(e).__name__)
    det = lambda: 'Tuple[int, str] <- %r under %s: %r ; without options %r' % (x, name, r, plain)
    if name != 'none' and r[0] == 'ok':
        V.check(len(x) <= 2, 'loss:extra-tuple-items-accepted', det)
        V.check(plain[0] == 'ok' and plain[1][:2] == r[1][:2], 'restrict:different-value-with-no_data_loss', det)
    V.cover('both' if (name != 'none' and r[0] == 'ok') else 'plain-only')
