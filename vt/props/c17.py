"""C17 -- forward references and declaration order do not change behaviour"""
import itertools
import sys
import types as pytypes

from utype import exc
from vt.ob import ob

PROP = 'C17'
ASSUMPTIONS = [
    'each system of declarations is generated as module source in two spellings -- forward (strings, names defined later, '
    'postponed evaluation, function-local classes) and direct (referenced classes defined first, plain names; for recursive '
    'systems a finite unrolling into distinct classes deep enough for the inputs) -- and executed inside the path under fresh '
    'module and class names (typing caches ForwardRef objects process-wide); outcomes are compared from the first call on',
    "outcome = plain-data view of the parsed value (nested dicts / lists) or the error class together with the failing top-level item",
    'typing internals run concretely (no symbolic data reaches them)',
]

COUNTER = itertools.count(1)


def load(src, tag):
    n = next(COUNTER)
    name = 'vt_c17_%s_%d' % (tag, n)
    src = src.replace('@@', str(n))
    mod = pytypes.ModuleType(name)
    mod.__dict__['__name__'] = name
    sys.modules[name] = mod
    try:
        exec(compile(src, name + '.py', 'exec'), mod.__dict__)
    except BaseException:
        sys.modules.pop(name, None)
        raise
    return mod, n


def unload(*mods):
    for m in mods:
        sys.modules.pop(m.__name__, None)


def plain(v):
    if isinstance(v, dict):
        return {k: plain(x) for k, x in v.items()}
    if isinstance(v, (list, tuple)):
        return [plain(x) for x in v]
    return v


def strip(v):
    """drop None / empty-list members (the unrolled twin's innermost classes lack the recursive fields)"""
    if isinstance(v, dict):
        return {k: strip(x) for k, x in v.items() if x is not None and x != []}
    if isinstance(v, list):
        return [strip(x) for x in v]
    if isinstance(v, tuple) and v and v[0] == 'ok':
        return ('ok', strip(v[1]))
    return v


def outcome(fn, *a, **k):
    try:
        return ('ok', plain(fn(*a, **k)))
    except exc.ParseError as e:
        return ('err', 'ParseError', str(getattr(e, 'item', None)))
    except Exception as e:  # noqa
        return ('crash', type(e).__name__, str(e)[:80])


HEAD = 'from typing import List, Dict, Optional, Union, Tuple, Iterator, AsyncIterator\nimport utype\nfrom utype import Schema, Field, Options\n'
FUTURE = 'from __future__ import annotations\n'

# ------------------------------------------------------------------ system: name defined later (B after A)
LATER_FWD = HEAD + '''
class A@@(Schema):
    b: Optional['B@@'] = None
    kids: List['B@@'] = Field(default_factory=list)
    by: Dict[str, 'B@@'] = Field(default_factory=dict)
    u: Union[int, 'B@@'] = 0
    t: Optional[Tuple['B@@', int]] = None


class B@@(Schema):
    x: int = Field(ge=0)
    y: str = ''
'''
LATER_FUTURE = FUTURE + HEAD + '''
class A@@(Schema):
    b: Optional[B@@] = None
    kids: List[B@@] = Field(default_factory=list)
    by: Dict[str, B@@] = Field(default_factory=dict)
    u: Union[int, B@@] = 0
    t: Optional[Tuple[B@@, int]] = None


class B@@(Schema):
    x: int = Field(ge=0)
    y: str = ''
'''
LATER_DIRECT = HEAD + '''
class B@@(Schema):
    x: int = Field(ge=0)
    y: str = ''


class A@@(Schema):
    b: Optional[B@@] = None
    kids: List[B@@] = Field(default_factory=list)
    by: Dict[str, B@@] = Field(default_factory=dict)
    u: Union[int, B@@] = 0
    t: Optional[Tuple[B@@, int]] = None
'''


def sym_b(V, name):
    k = V.pick(name + '_k', ['valid', 'neg', 'bad', 'str', 'empty'] if V.thorough else ['valid', 'neg', 'bad', 'str'])
    if k == 'valid':
        return {'x': V.int(name, 0, 3), 'y': 'q'}
    if k == 'neg':
        return {'x': V.int(name + '_n', -3, -1)}
    if k == 'bad':
        return {'x': 'zz'}
    if k == 'str':
        return {'x': '7'}
    return {}


def later_input(V, tag=''):
    d = {}
    which = V.pick(tag + 'field', ['b', 'kids', 'by', 'u', 't', 'two', 'none'])
    if which == 'b':
        d['b'] = sym_b(V, tag + 'b')
    elif which == 'kids':
        d['kids'] = [sym_b(V, tag + 'k%d' % i) for i in range(V.pick(tag + 'n', [1, 2]) if V.thorough else 1)]
    elif which == 'by':
        d['by'] = {'k': sym_b(V, tag + 'by')}
    elif which == 'u':
        d['u'] = sym_b(V, tag + 'u') if V.bool(tag + 'u_obj') else V.int(tag + 'u_int', -3, 3)
    elif which == 't':
        d['t'] = [sym_b(V, tag + 't'), V.int(tag + 't_int', -3, 3)]
    elif which == 'two':
        d['b'] = {'x': 3}
        d['kids'] = [sym_b(V, tag + 'k0')]
    return d


def _defined_later(V, spelling):
    with V.notrace():
        fwd, n1 = load(LATER_FWD if spelling == 'string' else LATER_FUTURE, 'fwd')
        direct, n2 = load(LATER_DIRECT, 'dir')
    try:
        A1, B1 = getattr(fwd, 'A%d' % n1), getattr(fwd, 'B%d' % n1)
        A2, B2 = getattr(direct, 'A%d' % n2), getattr(direct, 'B%d' % n2)
        first = V.pick('first_use', ['none', 'A', 'B'])
        if first == 'A':
            d0 = V.pick('h_input', [{'b': {'x': 1}}, {'kids': [{'x': 1}]}, {'u': 5}, {'t': [{'x': 'zz'}, 1]}])
            r1, r2 = outcome(A1, **d0), outcome(A2, **d0)
            V.check(r1 == r2, 'forward:first-call-differs', lambda: 'A(**%r): forward %r ; direct %r' % (d0, r1, r2))
        elif first == 'B':
            outcome(B1, x=1)
            outcome(B2, x=1)
        d = later_input(V)
        r1, r2 = outcome(A1, **d), outcome(A2, **d)
        V.check(r1 == r2, 'forward:differs:' + ('first-call' if first == 'none' else 'later-call'),
                lambda: '%s spelling, first use %s: A(**%r): forward %r ; direct %r' % (spelling, first, d, r1, r2))
        V.cover('accept' if r1[0] == 'ok' else 'reject')
    finally:
        unload(fwd, direct)


for _sp in ('string', 'future'):
    ob('defined-later/' + _sp, marks=['accept', 'reject'], budget=(150, 400),
       bounds="class A with fields Optional['B'], List['B'], Dict[str,'B'], Union[int,'B'], Optional[Tuple['B', int]] and B defined after A; "
              "spelling = %s; 0..1 earlier parse (of A on one of 4 inputs, or of B) then a parse of A on a solver-chosen input (which "
              'field is used, valid / negative / non-numeric / convertible / empty nested values with solver ints in -3..3); same outcome '
              'as the direct declaration (B first), from the first call on' % ('string annotations' if _sp == 'string' else
                                                                              'postponed evaluation (from __future__ import annotations)'))(
        (lambda sp: lambda V: _defined_later(V, sp))(_sp))


# ------------------------------------------------------------------ system: mutual recursion / self reference, definition and use order
MUTUAL = {
    'AB': HEAD + '''
class A@@(Schema):
    v: int = 0
    b: Optional['B@@'] = None


class B@@(Schema):
    w: int = Field(ge=0, default=0)
    a: Optional['A@@'] = None
    peers: List['B@@'] = Field(default_factory=list)
''',
    'BA': HEAD + '''
class B@@(Schema):
    w: int = Field(ge=0, default=0)
    a: Optional['A@@'] = None
    peers: List['B@@'] = Field(default_factory=list)


class A@@(Schema):
    v: int = 0
    b: Optional['B@@'] = None
''',
}
# direct spelling: a finite unrolling deep enough for inputs of nesting depth <= 3
UNROLLED = HEAD + '''
class B3_@@(Schema):
    w: int = Field(ge=0, default=0)


class A2_@@(Schema):
    v: int = 0
    b: Optional[B3_@@] = None


class B2_@@(Schema):
    w: int = Field(ge=0, default=0)
    a: Optional[A2_@@] = None
    peers: List[B3_@@] = Field(default_factory=list)


class A@@(Schema):
    v: int = 0
    b: Optional[B2_@@] = None
'''


def mutual_input(V, tag=''):
    w = lambda n: V.int(tag + n, -3, 3) if V.bool(tag + n + '_int') else V.pick(tag + n + '_s', ['5', 'x'])
    shape = V.pick(tag + 'shape', ['flat', 'b', 'b.a', 'b.peers', 'b.a.b'])
    if shape == 'flat':
        return {'v': w('v')}
    if shape == 'b':
        return {'b': {'w': w('w')}}
    if shape == 'b.a':
        return {'b': {'a': {'v': w('v')}}}
    if shape == 'b.peers':
        return {'b': {'peers': [{'w': w('w')}, {'w': 1}]}}
    return {'b': {'a': {'b': {'w': w('w')}}}}


@ob('mutual-recursion', marks=['accept', 'reject'], budget=(100, 400),
    bounds="A <-> B mutual recursion with a self-referencing list (Optional['B'], Optional['A'], List['B']) declared in either order; 0..1 "
           'earlier parse of A or of B (solver-chosen), then a parse of A on a solver-chosen input of nesting depth <= 3 with '
           'solver ints in -3..3 / "5" / "x" leaves: same outcome for both declaration orders and for a finite unrolling into distinct classes '
           'written with direct references')
def mutual_recursion(V):
    with V.notrace():
        m1, n1 = load(MUTUAL['AB'], 'ab')
        m2, n2 = load(MUTUAL['BA'], 'ba')
        m3, n3 = load(UNROLLED, 'un')
    try:
        A1, B1 = getattr(m1, 'A%d' % n1), getattr(m1, 'B%d' % n1)
        A2, B2 = getattr(m2, 'A%d' % n2), getattr(m2, 'B%d' % n2)
        A3 = getattr(m3, 'A%d' % n3)
        first = V.pick('first_use', ['none', 'A', 'B', 'B-invalid'])
        if first == 'A':
            outcome(A1, v=1)
        elif first == 'B':
            outcome(B1, w=1)
            outcome(B2, w=1)
        elif first == 'B-invalid':
            outcome(B1, w=-1, a={'v': 'x'})
        d = mutual_input(V)
        r1, r2, r3 = outcome(A1, **d), outcome(A2, **d), outcome(A3, **d)
        det = lambda: 'first use %s: A(**%r): declared A,B %r ; declared B,A %r ; unrolled with direct references %r' % (first, d, r1, r2, r3)
        V.check(r1 == r2, 'forward:declaration-order', det)
        V.check(strip(r1) == strip(r3), 'forward:differs-from-direct', det)
        V.cover('accept' if r1[0] == 'ok' else 'reject')
    finally:
        unload(m1, m2, m3)


# ------------------------------------------------------------------ system: constrained forward field, same name twice, functions, locals
MISC_FWD = HEAD + '''
def makefn@@():
    @utype.parse
    def lf(item: 'C@@', *rest: 'Pos@@', **extra: 'Pos@@') -> 'Pos@@':
        return item.p + sum(rest) + sum(extra.values())
    return lf


lf@@ = makefn@@()


@utype.parse(ignore_params=True)
def rf@@(x, wrap=False) -> 'Pos@@':
    return x


@utype.parse(ignore_params=True)
def rl@@(x) -> List['Pos@@']:
    return [x]


@utype.parse
def gw@@(x) -> 'Iterator[Pos@@]':
    yield x


@utype.parse
def gi@@(x) -> Iterator['Pos@@']:
    yield x


@utype.parse
async def ga@@(x) -> 'AsyncIterator[Pos@@]':
    yield x


class C@@(Schema):
    p: 'Pos@@' = Field(le=10)
    q: 'Pos@@' = Field(le=5, default=1)
    both: List['Pos@@'] = Field(default_factory=list, max_length=2)


class Pos@@(int, utype.Rule):
    gt = 0


@utype.parse
def fn@@(item: 'C@@', n: 'Pos@@' = 1) -> 'Pos@@':
    return item.p + n


def make@@():
    class Local(Schema):
        v: int = Field(ge=0, default=0)
        nxt: Optional['Local'] = None
        z: 'Pos@@' = 1
    return Local
'''
MISC_DIRECT = HEAD + '''
class Pos@@(int, utype.Rule):
    gt = 0


class C@@(Schema):
    p: Pos@@ = Field(le=10)
    q: Pos@@ = Field(le=5, default=1)
    both: List[Pos@@] = Field(default_factory=list, max_length=2)


@utype.parse
def fn@@(item: C@@, n: Pos@@ = 1) -> Pos@@:
    return item.p + n


def makefn@@():
    @utype.parse
    def lf(item: C@@, *rest: Pos@@, **extra: Pos@@) -> Pos@@:
        return item.p + sum(rest) + sum(extra.values())
    return lf


lf@@ = makefn@@()


@utype.parse(ignore_params=True)
def rf@@(x, wrap=False) -> Pos@@:
    return x


@utype.parse(ignore_params=True)
def rl@@(x) -> List[Pos@@]:
    return [x]


@utype.parse
def gw@@(x) -> Iterator[Pos@@]:
    yield x


@utype.parse
def gi@@(x) -> Iterator[Pos@@]:
    yield x


@utype.parse
async def ga@@(x) -> AsyncIterator[Pos@@]:
    yield x


def make@@():
    class Local2(Schema):
        v: int = Field(ge=0, default=0)
        z: Pos@@ = 1

    class Local(Schema):
        v: int = Field(ge=0, default=0)
        nxt: Optional[Local2] = None
        z: Pos@@ = 1
    return Local
'''


def num(V, name, lo=None, hi=None):
    k = V.pick(name + '_k', ['int', 'num', 'bad'])
    return V.int(name, lo, hi) if k == 'int' else '3' if k == 'num' else 'x'


def _misc(V, target):
    with V.notrace():
        fwd, n1 = load(MISC_FWD, 'mf')
        direct, n2 = load(MISC_DIRECT, 'md')
    try:
        if V.bool('other_first'):
            outcome(getattr(fwd, 'fn%d' % n1), {'p': 1}, 1)
            outcome(getattr(direct, 'fn%d' % n2), {'p': 1}, 1)
        if target == 'class':
            d = {'p': num(V, 'p')}
            if V.bool('has_q'):
                d['q'] = num(V, 'q')
            if V.bool('has_both'):
                d['both'] = [num(V, 'b%d' % i, -2, 12) for i in range(V.pick('n_both', [1, 2, 3] if V.thorough else [1, 2]))]
            r1, r2 = outcome(getattr(fwd, 'C%d' % n1), **d), outcome(getattr(direct, 'C%d' % n2), **d)
            V.check(r1 == r2, 'forward:differs:constrained-field', lambda: 'C(**%r): forward %r ; direct %r' % (d, r1, r2))
        elif target == 'return-only':
            x = num(V, 'x')
            fn = V.pick('fn', ['rf', 'rl', 'gw', 'gi', 'ga'])
            out = []
            for mod, n in ((fwd, n1), (direct, n2)):
                f = getattr(mod, fn + str(n))
                if fn == 'ga':
                    def drain(x=x, f=f):
                        ag = f(x)
                        items = []
                        while True:
                            co = ag.__anext__()
                            try:
                                co.send(None)
                            except StopIteration as e:
                                items.append(e.value)
                            except StopAsyncIteration:
                                return items
                            else:
                                raise RuntimeError('async generator suspended')
                    out.append([outcome(drain), outcome(drain)])
                elif fn in ('gw', 'gi'):
                    # generators: the whole annotation as one string ('Iterator[Pos]') or the argument only (Iterator['Pos'])
                    out.append([outcome(lambda: list(f(x))), outcome(lambda: list(f(x)))])
                else:
                    out.append([outcome(f, x), outcome(f, x)])
            V.check(out[0] == out[1], 'forward:differs:return-only',
                    lambda: '%s(%r) (ignore_params=True) called twice: forward %r ; direct %r' % (fn, x, out[0], out[1]))
        elif target == 'local-function':
            item = {'p': num(V, 'p')}
            rest = [num(V, 'r%d' % i) for i in range(V.pick('n_rest', [0, 1, 2] if V.thorough else [0, 1]))]
            extra = {'k': num(V, 'k')} if V.bool('has_extra') else {}
            out = []
            for mod, n in ((fwd, n1), (direct, n2)):
                f = getattr(mod, 'lf%d' % n)
                out.append([outcome(f, item, *rest, **extra), outcome(f, item, *rest, **extra)])
            V.check(out[0] == out[1], 'forward:differs:local-function',
                    lambda: 'lf(%r, *%r, **%r) called twice: forward %r ; direct %r' % (item, rest, extra, out[0], out[1]))
        elif target == 'function':
            item = {'p': num(V, 'p')}
            n = num(V, 'n')
            r1, r2 = outcome(getattr(fwd, 'fn%d' % n1), item, n), outcome(getattr(direct, 'fn%d' % n2), item, n)
            V.check(r1 == r2, 'forward:differs:function', lambda: 'fn(%r, %r): forward %r ; direct %r' % (item, n, r1, r2))
        else:
            L1, L2 = getattr(fwd, 'make%d' % n1)(), getattr(direct, 'make%d' % n2)()
            if V.bool('made_twice'):
                outcome(L1, v=1, nxt={'v': 2})
                L1 = getattr(fwd, 'make%d' % n1)()
            d = {'v': num(V, 'v')}
            shape = V.pick('shape', ['flat', 'nxt', 'z', 'nxt.z'])
            if shape == 'nxt':
                d['nxt'] = {'v': num(V, 'nv')}
            elif shape == 'z':
                d['z'] = num(V, 'z')
            elif shape == 'nxt.z':
                d['nxt'] = {'z': num(V, 'z')}
            r1, r2 = strip(outcome(L1, **d)), strip(outcome(L2, **d))
            V.check(r1 == r2, 'forward:differs:local-classes', lambda: 'Local(**%r): forward %r ; direct %r' % (d, r1, r2))
        V.cover(target)
    finally:
        unload(fwd, direct)


for _t in ('class', 'function', 'local', 'local-function', 'return-only'):
    ob('misc/' + _t, marks=[_t], budget=(150, 400),
       bounds="the same forward name in several constrained annotations ('Pos' = Field(le=10), 'Pos' = Field(le=5), List['Pos']), a "
              "decorated function with forward-referenced parameter / default / return types, functions decorated with ignore_params=True whose return type names a later class ('Pos', List['Pos']), a function-local decorated function (parameter, *args, **kwargs and return "
              "types naming module-level classes defined later; called twice), and function-local classes (self reference "
              'and a module-level name defined later, created twice) -- target %s; solver-chosen call order and inputs (ints in -3..3 / '
              '"3" / "x"); same outcome as the direct declarations' % _t)((lambda t: lambda V: _misc(V, t))(_t))


# ------------------------------------------------------------------ system: inheritance, local class -> module-level later class, nested in xor
MORE_FWD = HEAD + '''
from utype import types


class Base@@(Schema):
    b: Optional['Late@@'] = None
    ks: List['Late@@'] = Field(default_factory=list)


class Sub@@(Base@@):
    extra: int = 0


def make@@():
    class Loc(Schema):
        m: Optional['Late@@'] = None
        u: Union[int, 'Late@@'] = 0
    return Loc


Loc@@ = make@@()


class Host@@(Schema):
    f: types.PositiveInt ^ List['Late@@'] = 1


class M1_@@(Schema):
    ks: List['Late@@'] = Field(default_factory=list)


class M2_@@(Schema):
    o: Optional['Late@@'] = None


class Multi@@(M1_@@, M2_@@):
    z: int = 0


class Late@@(Schema):
    x: int = Field(ge=0, default=0)
'''
MORE_DIRECT = HEAD + '''
from utype import types


class Late@@(Schema):
    x: int = Field(ge=0, default=0)


class Base@@(Schema):
    b: Optional[Late@@] = None
    ks: List[Late@@] = Field(default_factory=list)


class Sub@@(Base@@):
    extra: int = 0


def make@@():
    class Loc(Schema):
        m: Optional[Late@@] = None
        u: Union[int, Late@@] = 0
    return Loc


Loc@@ = make@@()


class Host@@(Schema):
    f: types.PositiveInt ^ List[Late@@] = 1


class M1_@@(Schema):
    ks: List[Late@@] = Field(default_factory=list)


class M2_@@(Schema):
    o: Optional[Late@@] = None


class Multi@@(M1_@@, M2_@@):
    z: int = 0
'''


def _more(V, target):
    with V.notrace():
        fwd, n1 = load(MORE_FWD, 'xf')
        direct, n2 = load(MORE_DIRECT, 'xd')
    try:
        late = lambda name: {'x': num(V, name, -3, 3)}
        if target == 'subclass-before-base':
            cls = 'Sub'
            if V.bool('base_first'):
                outcome(getattr(fwd, 'Base%d' % n1), b={'x': 1})
                outcome(getattr(direct, 'Base%d' % n2), b={'x': 1})
            d = {'b': late('b')} if V.bool('via_b') else {'ks': [late('k')]}
        elif target == 'multiple-inheritance':
            cls = 'Multi'
            first = V.pick('first_use', ['none', 'M1_', 'M2_'])
            if first != 'none':
                outcome(getattr(fwd, first + str(n1)))
                outcome(getattr(direct, first + str(n2)))
            d = {}
            if V.bool('has_ks'):
                d['ks'] = [late('k')]
            if V.bool('has_o'):
                d['o'] = late('o')
        elif target == 'local-to-module':
            cls = 'Loc'
            d = {'m': late('m')} if V.bool('via_m') else {'u': late('u')}
        else:
            cls = 'Host'
            d = {'f': [late('f')]} if V.bool('as_list') else {'f': num(V, 'fi', -3, 3)}
        r1, r2 = outcome(getattr(fwd, cls + str(n1)), **d), outcome(getattr(direct, cls + str(n2)), **d)
        V.check(r1 == r2, 'forward:differs:' + target, lambda: '%s(**%r): forward %r ; direct %r' % (cls, d, r1, r2))
        V.cover(target)
    finally:
        unload(fwd, direct)


for _t in ('subclass-before-base', 'local-to-module', 'xor-of-list', 'multiple-inheritance'):
    ob('more/' + _t, marks=[_t], budget=(100, 400),
       bounds="a subclass used before (or after) its base whose Optional['Late'] / List['Late'] references are still pending; a "
              "function-local class naming a module-level class defined later (Optional / Union); a forward reference nested in "
              "PositiveInt ^ List['Late']; a class with two bases that each hold a pending reference to the same name (0..1 earlier use of a base) -- target %s; inputs solver ints in -3..3 / \"3\" / \"x\"; same outcome as the direct "
              'declarations' % _t)((lambda t: lambda V: _more(V, t))(_t))


# ------------------------------------------------------------------ several forward references inside one generic
MULTI_FWD = HEAD + 'from typing import Type\n' + '''
class Holder@@(Schema):
    m: Dict['Code@@', List['Item@@']] = Field(default_factory=dict)
    t: Tuple[Optional['Item@@'], Optional['Code@@']] = (None, None)
    u: Union[Dict['Code@@', 'Item@@'], List['Item@@']] = Field(default_factory=list)
    h: Dict['Code@@', Type['Handler@@']] = Field(default_factory=dict)


def make@@():
    class Inv(Schema):
        m: Dict['Code@@', List['Item@@']] = Field(default_factory=dict)
        t: Tuple[Optional['Item@@'], Optional['Code@@']] = (None, None)
    return Inv


Inv@@ = make@@()


class Code@@(str, utype.Rule):
    max_length = 2


class Item@@(Schema):
    x: int = Field(ge=0, default=0)


class Handler@@:
    pass


class Special@@(Handler@@):
    pass
'''
MULTI_DIRECT = HEAD + 'from typing import Type\n' + '''
class Code@@(str, utype.Rule):
    max_length = 2


class Item@@(Schema):
    x: int = Field(ge=0, default=0)


class Handler@@:
    pass


class Special@@(Handler@@):
    pass


class Holder@@(Schema):
    m: Dict[Code@@, List[Item@@]] = Field(default_factory=dict)
    t: Tuple[Optional[Item@@], Optional[Code@@]] = (None, None)
    u: Union[Dict[Code@@, Item@@], List[Item@@]] = Field(default_factory=list)
    h: Dict[Code@@, Type[Handler@@]] = Field(default_factory=dict)


def make@@():
    class Inv(Schema):
        m: Dict[Code@@, List[Item@@]] = Field(default_factory=dict)
        t: Tuple[Optional[Item@@], Optional[Code@@]] = (None, None)
    return Inv


Inv@@ = make@@()
'''


@ob('multi-reference-generics', marks=['module', 'local'], budget=(100, 400),
    bounds="one generic naming several later-defined names -- Dict['Code', List['Item']], Tuple[Optional['Item'], Optional['Code']], "
           "Union[Dict['Code', 'Item'], List['Item']], Dict['Code', Type['Handler']] -- in a module-level class and in a function-local class "
           '(module-level names); field, key (1-3 chars) and item value (solver int -3..3 / "3" / "x") solver-chosen; two consecutive '
           'calls; same outcome as the direct declarations')
def multi_reference_generics(V):
    with V.notrace():
        fwd, n1 = load(MULTI_FWD, 'mf')
        direct, n2 = load(MULTI_DIRECT, 'md')
    try:
        cls = V.pick('class', ['Holder', 'Inv'])
        key = V.pick('key', ['a', 'ab', 'abc'])
        item = {'x': num(V, 'x', -3, 3)}
        field = V.pick('field', ['m', 't', 'u-dict', 'u-list', 'h'] if cls == 'Holder' else ['m', 't'])
        out = []
        for mod, n in ((fwd, n1), (direct, n2)):
            d = {'m': {'m': {key: [item]}}, 't': {'t': [item, key]}, 'u-dict': {'u': {key: item}}, 'u-list': {'u': [item]},
                 'h': {'h': {key: getattr(mod, 'Special%d' % n) if item['x'] != 'x' else int}}}[field]
            c = getattr(mod, cls + str(n))
            r = [outcome(c, **d), outcome(c, **d)]
            out.append([(x[0], repr(x[1:]).replace(mod.__name__, 'M').replace(str(n), '@')) for x in r])
        V.check(out[0] == out[1], 'forward:differs:multi-reference-generic',
                lambda: '%s field %s key %r item %r: forward %r ; direct %r' % (cls, field, key, item, out[0], out[1]))
        V.cover('module' if cls == 'Holder' else 'local')
    finally:
        unload(fwd, direct)


# ------------------------------------------------------------------ system: premature first call, class factory called twice
PREMATURE = HEAD + '''
class Order@@(Schema):
    lines: List['Line@@'] = Field(default_factory=list)
    note: 'Note@@' = Field(max_length=3, default='')
    n: int = 0
'''
PREMATURE_REST = '''
class Line@@(Schema):
    qty: int = Field(ge=1)


class Note@@(str, utype.Rule):
    min_length = 0
'''
FACTORY = HEAD + '''
def tree_of@@(t):
    class Tree(Schema):
        v: t
        kids: List['Tree'] = Field(default_factory=list)
        up: Optional['Tree'] = None
    return Tree


Tree = tree_of@@(int)
StrTree@@ = tree_of@@(str)
IntTree@@ = Tree


def nest_of@@(t):
    class Outer(Schema):
        class Item(Schema):
            v: t
            more: List['Item'] = Field(default_factory=list)
            nxt: Optional['Item'] = None
        first: Item
    return Outer


IntNest@@ = nest_of@@(int)
StrNest@@ = nest_of@@(str)
'''
FACTORY_DIRECT = HEAD + '''
class S3_@@(Schema):
    v: str


class S2_@@(Schema):
    v: str
    kids: List[S3_@@] = Field(default_factory=list)
    up: Optional[S3_@@] = None


class StrTree@@(Schema):
    v: str
    kids: List[S2_@@] = Field(default_factory=list)
    up: Optional[S2_@@] = None


class I3_@@(Schema):
    v: int


class I2_@@(Schema):
    v: int
    kids: List[I3_@@] = Field(default_factory=list)
    up: Optional[I3_@@] = None


class IntTree@@(Schema):
    v: int
    kids: List[I2_@@] = Field(default_factory=list)
    up: Optional[I2_@@] = None


class StrN3_@@(Schema):
    v: str


class StrN2_@@(Schema):
    v: str
    more: List[StrN3_@@] = Field(default_factory=list)
    nxt: Optional[StrN3_@@] = None


class StrN1_@@(Schema):
    v: str
    more: List[StrN2_@@] = Field(default_factory=list)
    nxt: Optional[StrN2_@@] = None


class StrNest@@(Schema):
    first: StrN1_@@


class IntN3_@@(Schema):
    v: int


class IntN2_@@(Schema):
    v: int
    more: List[IntN3_@@] = Field(default_factory=list)
    nxt: Optional[IntN3_@@] = None


class IntN1_@@(Schema):
    v: int
    more: List[IntN2_@@] = Field(default_factory=list)
    nxt: Optional[IntN2_@@] = None


class IntNest@@(Schema):
    first: IntN1_@@
'''


@ob('premature-first-call', marks=['accept', 'reject'], budget=(100, 400),
    bounds="a class is (optionally, solver bool) called before the classes its string annotations name exist -- the call fails -- then "
           'those classes are defined and the class is parsed on a solver-chosen input: the outcome equals that of the same system '
           'without the premature call and with direct references')
def premature(V):
    with V.notrace():
        fwd, n1 = load(PREMATURE, 'pf')
        direct, n2 = load((HEAD + PREMATURE_REST + PREMATURE[len(HEAD):]).replace("'Line@@'", 'Line@@').replace("'Note@@'", 'Note@@'), 'pd')
    try:
        O1, O2 = getattr(fwd, 'Order%d' % n1), getattr(direct, 'Order%d' % n2)
        if V.bool('premature_call'):
            early = V.pick('early_input', [{'n': 1}, {'lines': [{'qty': 1}]}, {'note': 'ab'}])
            r = outcome(O1, **early)
            V.check(r[0] != 'ok' or True, 'forward:premature', lambda: repr(r))
        with V.notrace():
            exec(compile(PREMATURE_REST.replace('@@', str(n1)), fwd.__name__ + '_rest.py', 'exec'), fwd.__dict__)
        d = {}
        which = V.pick('field', ['lines', 'note', 'both', 'n'])
        if which in ('lines', 'both'):
            d['lines'] = [{'qty': num(V, 'q%d' % i, -2, 3)} for i in range(V.pick('n_lines', [1, 2]))]
        if which in ('note', 'both'):
            d['note'] = V.pick('note', ['', 'ab', 'abcd', 5])
        if which == 'n':
            d['n'] = num(V, 'n', -3, 3)
        r1, r2 = outcome(O1, **d), outcome(O2, **d)
        V.check(r1 == r2, 'forward:differs:after-premature-call', lambda: 'Order(**%r): forward %r ; direct %r' % (d, r1, r2))
        V.cover('accept' if r1[0] == 'ok' else 'reject')
    finally:
        unload(fwd, direct)


@ob('class-factory', marks=['str', 'int'], budget=(100, 400),
    bounds="a class factory defining a self-referencing class (List['Tree'], Optional['Tree']) is called twice (int and str "
           'payload), the first product is bound at module level under the class\'s own name; also with the self-referencing class nested inside the function-local class; the second product must parse '
           'nested values with ITS payload type; inputs of depth <= 3 with solver ints -3..3 / "3" / "x"; same outcome as explicit '
           'classes with direct references')
def class_factory(V):
    with V.notrace():
        fwd, n1 = load(FACTORY, 'ff')
        direct, n2 = load(FACTORY_DIRECT, 'fd')
    try:
        which = V.pick('which', ['str', 'int'])
        name = 'StrTree' if which == 'str' else 'IntTree'
        other_first = V.bool('other_first')
        nested = V.bool('nested_class')
        if other_first and not nested:
            other = 'IntTree' if which == 'str' else 'StrTree'
            outcome(getattr(fwd, other + str(n1)), v=1, kids=[{'v': 2}])
        d = {'v': num(V, 'v', -3, 3)}
        shape = V.pick('shape', ['flat', 'kids', 'up', 'kids.kids'])
        if shape == 'kids':
            d['kids'] = [{'v': num(V, 'k', -3, 3)}]
        elif shape == 'up':
            d['up'] = {'v': num(V, 'u', -3, 3)}
        elif shape == 'kids.kids':
            d['kids'] = [{'v': 1, 'kids': [{'v': num(V, 'kk', -3, 3)}]}]
        if nested:
            # the self-referencing class is nested inside the function-local class
            name = 'StrNest' if which == 'str' else 'IntNest'
            if other_first:
                outcome(getattr(fwd, ('IntNest' if which == 'str' else 'StrNest') + str(n1)), first={'v': 1, 'more': [{'v': 2}]})
            d = {'first': {('more' if k == 'kids' else 'nxt' if k == 'up' else k): (
                [{('more' if kk == 'kids' else kk): vv for kk, vv in x.items()} for x in v] if k == 'kids' else v) for k, v in d.items()}}
        r1, r2 = strip(outcome(getattr(fwd, name + str(n1)), **d)), strip(outcome(getattr(direct, name + str(n2)), **d))
        V.check(r1 == r2, 'forward:differs:class-factory', lambda: '%s(**%r): factory product %r ; explicit classes %r' % (name, d, r1, r2))
        V.cover(which)
    finally:
        unload(fwd, direct)


# ------------------------------------------------------------------ the same names in two modules (typing shares one ForwardRef per spelling)
TWO_SRC = '''
from typing import List, Optional, Dict
from utype import Schema, Field


class Holder(Schema):
    things: List['Thing'] = Field(default_factory=list)
    one: Optional['Thing'] = None
    by: Dict[str, 'Thing'] = Field(default_factory=dict)


class Thing(Schema):
    v: %s
'''


TWO_DRIVER = '''
import sys, types as pytypes
sys.path.insert(0, %(repo)r)
SRC = %(src)r
def load(name, t):
    m = pytypes.ModuleType(name); sys.modules[name] = m
    exec(compile(SRC %% t, name + '.py', 'exec'), m.__dict__); return m
order, first, field, raw = %(order)r, %(first)r, %(field)r, %(raw)r
second = 'str' if first == 'int' else 'int'
d = {'things': {'things': [{'v': raw}]}, 'one': {'one': {'v': raw}}, 'by': {'by': {'k': {'v': raw}}}}[field]
mods = {}
def use(kind):
    h = mods[kind].Holder(**d)
    t = h.things[0] if field == 'things' else h.one if field == 'one' else h.by['k']
    return (type(t).__module__ == 'two_' + kind, t.v)
mods[first] = load('two_' + first, first)
if order == 'declare-declare-use':
    mods[second] = load('two_' + second, second)
out = [use(first)]
if order == 'declare-use-declare':
    mods[second] = load('two_' + second, second)
out.append(use(second)); out.append(use(first))
print(repr(out))
'''


@ob('same-names-two-modules', marks=['done'], budget=(60, 200),
    bounds="two modules declare Holder (List['Thing'], Optional['Thing'], Dict[str, 'Thing']) and their own Thing (v: int in one, v: str "
           'in the other) under the same names; solver-picked: both modules are declared before either is used, or the second is declared '
           'after the first was used; which module is used first; the field carrying the value ("7" / 8): each Holder converts with the '
           'Thing of its own module, in every order. Each path runs in a fresh interpreter (typing caches one ForwardRef per spelling '
           'for the whole process, so paths of one process would not be independent)')
def same_names_two_modules(V):
    import ast
    import os
    import subprocess
    order = V.pick('order', ['declare-declare-use', 'declare-use-declare'])
    first = V.pick('first_used', ['int', 'str'])
    field = V.pick('field', ['things', 'one', 'by'])
    raw = V.pick('raw', ['7', 8])
    with V.notrace():
        code = TWO_DRIVER % dict(repo=os.environ.get('UTYPE_REPO', '/repo'), src=TWO_SRC, order=order, first=first, field=field, raw=raw)
        p = subprocess.run([sys.executable, '-c', code], stdout=subprocess.PIPE, stderr=subprocess.PIPE, timeout=60)
        try:
            out = ast.literal_eval(p.stdout.decode().strip().splitlines()[-1])
        except Exception:  # noqa
            out = ('crash', p.stderr.decode()[-300:])
    second = 'str' if first == 'int' else 'int'
    want = {'int': (True, int(raw)), 'str': (True, str(raw))}
    V.check(out == [want[first], want[second], want[first]], 'forward:differs:same-names-two-modules:' + order,
            lambda: '%s, first used %s, field %s, value %r: (own class?, value) for first / second / first again: %r' % (order, first, field, raw, out))
    V.cover('done')
