"""C10 -- collecting errors changes reporting only, never the verdict or the value"""
from typing import Dict, List, Tuple, Union

import utype
from utype import Field, Options, Rule, Schema, exc, types
from utype.utils.transform import type_transform
from vt import dcspec
from vt.dcsym import GROUPS, applicable, bounds_text, limit_for, sym_items, sym_options
from vt.ob import ob
from vt.h import attempt

PROP = 'C10'
ASSUMPTIONS = [
    "'failing top-level items' of a data class / function are the items for which the reference model of C05 derives an "
    'error (absence, parse, exceed, alias conflict, dependency, params); for containers they are the positions / keys whose '
    'element fails when converted alone',
    'equality of produced values is == plus same type',
]


def same(a, b):
    return type(a) is type(b) and a == b


def collected_items(e):
    """top-level error items of a CollectedParseError (None if e is not one)"""
    if not isinstance(e, exc.CollectedParseError):
        return None
    return [getattr(x, 'item', None) for x in e.errors]


# ------------------------------------------------------------------ data classes (spec-generated)
def _dc(V, spec_id, group):
    o = sym_options(V, group)
    if group == 'alias':
        # the lookup strategies keep separate books of what was provided / rejected
        o['data_first_search'] = V.bool('data_first_search')
    cap = V.pick('max_errors', [None, 1, 2, 3] if V.thorough or group != 'alias' else [None, 2])
    # (alias / alias: room for three spellings of one field -- name, alias and a second letter case of the alias)
    limit = 6 if (spec_id, group) == ('alias', 'alias') and not V.thorough else limit_for(V, spec_id, group)
    items = sym_items(V, spec_id, limit=limit, strs=V.thorough or spec_id != 'onerr')
    co = dict(o, collect_errors=True)
    if cap:
        co['max_errors'] = cap
    with V.notrace():
        plain = dcspec.make_class(spec_id, 'Schema', o)
        coll = dcspec.make_class(spec_id, 'Schema', co)
    a = dcspec.run_impl(plain, items)
    b = dcspec.run_impl(coll, items)
    m = dcspec.reference(spec_id, o, items)
    det = lambda: '%s %r options=%r max_errors=%r: fail-fast -> %r ; collecting -> %r ; model errors %r (+%r)' % (
        plain.__name__, items, o, cap, a[:3], b[:3], sorted(m['errors']), sorted(m['optional']))
    V.check(a[0] != 'crash' and b[0] != 'crash', 'collect:crash', det)
    V.check(a[0] == b[0], 'collect:verdict', det)
    if a[0] == 'ok':
        V.check(a[1] == b[1] and a[2] == b[2] and all(same(a[1][k], b[1][k]) for k in a[1]), 'collect:value', det)
        V.cover('accept')
        return
    e = b[2]
    V.check(isinstance(e, exc.CollectedParseError), 'collect:not-collected', det)
    kinds = b[1]
    n = len(e.errors)
    if cap:
        V.check(n <= cap, 'collect:max_errors-exceeded', det)
    V.check(kinds <= (m['errors'] | m['optional']), 'collect:valid-item-reported', det)
    if not cap or len(m['errors'] | m['optional']) < cap:
        V.check(m['errors'] <= kinds, 'collect:failing-item-missing', det)
    elif not m['optional']:
        V.check(n == min(cap, len(m['errors'])), 'collect:cap-count', det)
    V.check(len(kinds) == n or bool(m['optional']), 'collect:duplicate-report', det)
    V.cover('reject')
    if cap and len(m['errors']) > cap:
        V.cover('capped')


C10_SPECS = {'basic': ['plain', 'addition', 'alias', 'params'], 'onerr': ['plain', 'policy'], 'mix': ['plain', 'addition'],
             'deps': ['plain'], 'alias': ['plain', 'alias'], 'mode': ['mode']}
for _spec, _groups in C10_SPECS.items():
    for _g in GROUPS:
        if not applicable(_spec, _g):
            continue
        ob('dataclass/%s/%s' % (_spec, _g), marks=['accept', 'reject'], budget=(160, 400), per_path=(15, 30),
           exhaustive=(False, False) if (_spec, _g) == ('alias', 'alias') else (True, False),
           thorough_only=_g not in _groups,
           bounds=bounds_text(_spec, _g, 'Schema') + '; lookup strategy solver-picked in the alias group; the same declaration with and without collect_errors (max_errors '
                  'picked from none,1,2,3)', out='as C05; the thorough key vocabulary (7 / 8 keys) is explored within the budget (solver-driven, every path replayed), not exhausted: the exhaustive claim is the quick vocabulary')((lambda s, g: lambda V: _dc(V, s, g))(_spec, _g))


# ------------------------------------------------------------------ containers
def elem_type(V):
    a = V.int('a', -2, 2)
    return a, Rule.annotate(int, constraints={'ge': a}, name='IntGe')


def element(V, name):
    k = V.pick(name + '_kind', ['int', 'bad', 'num'])
    if k == 'int':
        return V.int(name, -4, 4)
    return 'x' if k == 'bad' else '5'


def alone(ET, e):
    r = attempt(type_transform, e, ET)
    return r[0] == 'ok'


def _container(V, kind):
    a, ET = elem_type(V)
    cap = V.pick('max_errors', [None, 1, 2])
    n = V.pick('n', [0, 1, 2, 3])
    if kind == 'list':
        T = Rule.parse_annotation(List[ET])
        x = [element(V, 'e%d' % i) for i in range(n)]
        failing = [i for i, e in enumerate(x) if not alone(ET, e)]
    elif kind == 'tuple':
        T = Rule.parse_annotation(Tuple[ET, ET])
        x = tuple(element(V, 'e%d' % i) for i in range(n))
        failing = [i for i, e in enumerate(x[:2]) if not alone(ET, e)] + [i for i in range(len(x), 2)]
    else:
        T = Rule.parse_annotation(Dict[str, ET])
        keys = ['p', 'q', 'r']
        x = {keys[i]: element(V, 'e%d' % i) for i in range(n)}
        failing = [k for k, e in x.items() if not alone(ET, e)]
    oc = dict(collect_errors=True)
    if cap:
        oc['max_errors'] = cap
    base = {}
    if V.bool('ignore_constraints'):
        # constraints waived: only unconvertible elements ('x') fail
        base['ignore_constraints'] = True
        if kind == 'list':
            failing = [i for i, e in enumerate(x) if e == 'x']
        elif kind == 'tuple':
            failing = [i for i, e in enumerate(x[:2]) if e == 'x'] + [i for i in range(len(x), 2)]
        else:
            failing = [k for k, e in x.items() if e == 'x']
    oc.update(base)
    ra = attempt(type_transform, x, T, Options(**base))
    rb = attempt(type_transform, x, T, Options(**oc))
    det = lambda: '%s[int>=%d] input=%r max_errors=%r: fail-fast -> %r ; collecting -> %r %r ; failing alone: %r' % (
        kind, a, x, cap, ra, rb, collected_items(rb[1]) if rb[0] != 'ok' else '', failing)
    V.check(ra[0] != 'crash' and rb[0] != 'crash', 'container:crash', det)
    V.check(ra[0] == rb[0], 'container:verdict', det)
    V.check((ra[0] == 'ok') == (not failing), 'container:verdict-vs-elements', det)
    if ra[0] == 'ok':
        V.check(type(ra[1]) is type(rb[1]) and ra[1] == rb[1], 'container:value', det)
        V.cover('accept')
        return
    got = collected_items(rb[1])
    V.check(got is not None, 'container:not-collected', det)
    if cap:
        V.check(len(got) <= cap, 'container:max_errors-exceeded', det)
        V.check(set(got) <= set(failing) and len(set(got)) == len(got) and len(got) == min(cap, len(failing)),
                'container:capped-items', det)
        if len(failing) > cap:
            V.cover('capped')
    else:
        V.check(sorted(map(str, got)) == sorted(map(str, failing)), 'container:items', det)
    V.cover('reject')


for _k in ('list', 'tuple', 'dict'):
    ob('container/' + _k, marks=['accept', 'reject', 'capped'], budget=(60, 300),
       bounds='%s with 0..3 elements, each solver int -4..4 | "x" | "5", element type Rule[int](ge=a), a in -2..2 symbolic; '
              'max_errors from none,1,2; ignore_constraints solver-picked' % {'list': 'List[IntGe]', 'tuple': 'Tuple[IntGe, IntGe] (inputs shorter and longer '
                                            'than the prefix)', 'dict': 'Dict[str, IntGe]'}[_k],
       out='nested containers')((lambda k: lambda V: _container(V, k))(_k))


# ------------------------------------------------------------------ functions
def _mk(collect, cap=None):
    o = dict(collect_errors=collect, addition=False)
    if cap:
        o['max_errors'] = cap

    @utype.parse(options=Options(**o))
    def f(a: types.PositiveInt, b: types.PositiveInt = 1, *, c: types.PositiveInt, d: types.PositiveInt = 2):
        return (a, b, c, d)
    return f


F_PLAIN = _mk(False)
F_COLL = {cap: _mk(True, cap) for cap in (None, 1, 2)}


def _function(V, cap):
    args, kwargs = [], {}
    failing = set()

    def val(name):
        k = V.pick(name + '_kind', ['int', 'bad', 'num'])
        if k == 'int':
            v = V.int(name, -3, 3)
            good = True if v > 0 else False
        else:
            v, good = ('x', False) if k == 'bad' else ('5', True)
        return v, good

    how_a = V.pick('a_how', ['pos', 'kw', 'omit'])
    if how_a == 'omit':
        failing.add('a')
    else:
        v, good = val('a')
        if not good:
            failing.add('a')
        if how_a == 'pos':
            args.append(v)
        else:
            kwargs['a'] = v
    how_b = V.pick('b_how', ['pos', 'kw', 'omit']) if how_a == 'pos' else V.pick('b_how', ['kw', 'omit'])
    if how_b != 'omit':
        v, good = val('b')
        if not good:
            failing.add('b')
        if how_b == 'pos':
            args.append(v)
        else:
            kwargs['b'] = v
    for n in ('c', 'd'):
        if V.bool(n + '_given'):
            v, good = val(n)
            if not good:
                failing.add(n)
            kwargs[n] = v
        elif n == 'c':
            failing.add('c')
    if V.bool('unknown'):
        kwargs['zz'] = 1
        failing.add('zz')
    ra = attempt(F_PLAIN, *args, **kwargs)
    rb = attempt(F_COLL[cap], *args, **kwargs)
    det = lambda: 'f(*%r, **%r) max_errors=%r: fail-fast -> %r ; collecting -> %r %r ; failing: %r' % (
        args, kwargs, cap, ra, rb, collected_items(rb[1]) if rb[0] != 'ok' else '', sorted(failing))
    V.check(ra[0] != 'crash' and rb[0] != 'crash', 'function:crash', det)
    V.check(ra[0] == rb[0], 'function:verdict', det)
    V.check((ra[0] == 'ok') == (not failing), 'function:verdict-vs-params', det)
    if ra[0] == 'ok':
        V.check(ra[1] == rb[1], 'function:value', det)
        V.cover('accept')
        return
    got = collected_items(rb[1])
    V.check(got is not None, 'function:not-collected', det)
    if cap:
        V.check(len(got) <= cap and set(got) <= failing and len(set(got)) == len(got)
                and len(got) == min(cap, len(failing)), 'function:capped-items', det)
        if len(failing) > cap:
            V.cover('capped')
    else:
        V.check(sorted(got) == sorted(failing), 'function:items', det)
    V.cover('reject')


for _cap in (None, 1, 2):
    ob('function/max_errors-%s' % _cap, marks=['accept', 'reject'] + (['capped'] if _cap else []), budget=(90, 300),
       bounds='@parse(options=Options(addition=False)) def f(a, b=1, *, c, d=2) with PositiveInt parameters; a, b given by '
              'position or by name or omitted, c, d by name or omitted, one unknown keyword optional; each value solver int '
              '-3..3 | "x" | "5"; max_errors=%s' % _cap, out='*args/**kwargs (C08, C11)')(
        (lambda c: lambda V: _function(V, c))(_cap))


# ------------------------------------------------------------------ positional-only parameters
def _mk_posonly(collect):
    @utype.parse(options=Options(collect_errors=collect))
    def g(a: types.PositiveInt, b: types.PositiveInt = 1, /, c: types.PositiveInt = 2, *, d: types.PositiveInt):
        return a, b, c, d
    return g


G_PLAIN, G_COLL = _mk_posonly(False), _mk_posonly(True)


@ob('function/positional-only', marks=['accept', 'reject'], budget=(90, 300),
    bounds='def g(a, b=1, /, c=2, *, d) with PositiveInt parameters; 0..3 positional arguments, c and d by name or omitted; each value '
           'solver int -3..3 | "x" | "5": same verdict and value as fail-fast, and the collected error names each failing or absent '
           'parameter exactly once')
def function_posonly(V):
    failing = set()

    def val(name):
        k = V.pick(name + '_kind', ['int', 'bad', 'num'])
        if k == 'int':
            v = V.int(name, -3, 3)
            return v, (True if v > 0 else False)
        return ('x', False) if k == 'bad' else ('5', True)
    n_pos = V.pick('n_pos', [0, 1, 2, 3])
    args, kwargs = [], {}
    for i, name in enumerate(('a', 'b', 'c')[:n_pos]):
        v, good = val(name)
        args.append(v)
        if not good:
            failing.add(name)
    if n_pos == 0:
        failing.add('a')
    if n_pos < 3 and V.bool('c_kw'):
        v, good = val('c')
        kwargs['c'] = v
        if not good:
            failing.add('c')
    if V.bool('d_kw'):
        v, good = val('d')
        kwargs['d'] = v
        if not good:
            failing.add('d')
    else:
        failing.add('d')
    ra, rb = attempt(G_PLAIN, *args, **kwargs), attempt(G_COLL, *args, **kwargs)
    det = lambda: 'g(*%r, **%r): fail-fast -> %r ; collecting -> %r %r ; failing: %r' % (
        args, kwargs, ra, rb, collected_items(rb[1]) if rb[0] != 'ok' else '', sorted(failing))
    V.check(ra[0] != 'crash' and rb[0] != 'crash', 'function:crash', det)
    V.check(ra[0] == rb[0], 'function:verdict', det)
    V.check((ra[0] == 'ok') == (not failing), 'function:verdict-vs-params', det)
    if ra[0] == 'ok':
        V.check(ra[1] == rb[1], 'function:value', det)
        V.cover('accept')
        return
    got = collected_items(rb[1])
    V.check(got is not None, 'function:not-collected', det)
    V.check(sorted(got) == sorted(failing), 'function:items', det)
    V.cover('reject')


# ------------------------------------------------------------------ union-typed field where every branch fails
class UF(Schema):
    __options__ = Options(collect_errors=True)
    u: Union[types.PositiveInt, types.NegativeInt] = 1
    v: types.PositiveInt = 1


class UFP(Schema):
    u: Union[types.PositiveInt, types.NegativeInt] = 1
    v: types.PositiveInt = 1


@ob('union-field', marks=['accept', 'reject'], budget=(40, 120),
    bounds='Schema with u: Union[PositiveInt, NegativeInt], v: PositiveInt; u, v solver ints (unbounded) | "x" | absent: a '
           'union whose every branch fails is one failing item; errors of failed branches never leak when a later branch '
           'accepts')
def union_field(V):
    data = {}
    failing = set()
    for n in ('u', 'v'):
        k = V.pick(n + '_kind', ['absent', 'int', 'bad'])
        if k == 'int':
            x = V.int(n)
            data[n] = x
            if (n == 'u' and x == 0) or (n == 'v' and x <= 0):
                failing.add(n)
        elif k == 'bad':
            data[n] = 'x'
            failing.add(n)
    ra = attempt(UFP, **data)
    rb = attempt(UF, **data)
    det = lambda: 'U(**%r): fail-fast -> %r ; collecting -> %r %r' % (
        data, ra, rb, collected_items(rb[1]) if rb[0] != 'ok' else '')
    V.check(ra[0] != 'crash' and rb[0] != 'crash', 'union:crash', det)
    V.check(ra[0] == rb[0], 'union:verdict', det)
    V.check((ra[0] == 'ok') == (not failing), 'union:verdict-vs-fields', det)
    if ra[0] == 'ok':
        V.check(dict(ra[1]) == dict(rb[1]), 'union:value', det)
        V.cover('accept')
        return
    got = collected_items(rb[1])
    V.check(got is not None and sorted(got) == sorted(failing), 'union:items', det)
    V.cover('reject')


# ------------------------------------------------------------------ discriminated unions
from typing import Literal  # noqa: E402


class Vid(Schema):
    name: Literal['video']
    w: int = Field(ge=0, default=0)


class Aud(Schema):
    name: Literal['audio']
    rate: int = Field(ge=0, default=0)


class DiscPlain(Schema):
    __options__ = Options(addition=False)
    file: Union[Vid, Aud] = Field(discriminator='name')
    n: types.PositiveInt = 1


class DiscColl(Schema):
    __options__ = Options(addition=False, collect_errors=True)
    file: Union[Vid, Aud] = Field(discriminator='name')
    n: types.PositiveInt = 1


FILES = [{'name': 'video', 'w': 3}, {'name': 'audio', 'rate': '5'}, {'name': 'other'}, {'name': 'video', 'w': -1}, {}, 5, 'x',
         '{"name": "audio"}', None, [{'name': 'video'}], {'name': 'audio', 'rate': 'x'}]


@ob('discriminator', marks=['accept', 'reject'], budget=(60, 200),
    bounds='Schema with file: Union[Vid, Aud] = Field(discriminator="name") and n: PositiveInt; file picked from 11 values (both '
           'kinds, unknown / missing discriminator, non-mapping values, invalid nested field), n solver int | "x" | absent: '
           'collect_errors does not change the verdict or the value, a failing field is named once, nothing but ParseError escapes')
def discriminator(V):
    data = {}
    if V.bool('has_file'):
        data['file'] = V.pick('file', FILES)
    k = V.pick('n_kind', ['absent', 'int', 'bad'])
    if k == 'int':
        data['n'] = V.int('n')
    elif k == 'bad':
        data['n'] = 'x'
    ra, rb = attempt(DiscPlain, **data), attempt(DiscColl, **data)
    det = lambda: 'Disc(**%r): fail-fast -> %r ; collecting -> %r %r' % (data, ra, rb, collected_items(rb[1]) if rb[0] != 'ok' else '')
    V.check(ra[0] != 'crash' and rb[0] != 'crash', 'discriminator:crash', det)
    V.check(ra[0] == rb[0], 'discriminator:verdict', det)
    if ra[0] == 'ok':
        V.check(dict(ra[1]) == dict(rb[1]), 'discriminator:value', det)
        V.cover('accept')
        return
    got = collected_items(rb[1])
    V.check(got is not None and len(set(got)) == len(got), 'discriminator:duplicate-report', det)
    V.check(set(got) <= {'file', 'n'}, 'discriminator:items', det)
    V.cover('reject')


# ------------------------------------------------------------------ computed (output) properties
def _mk_prop(collect):
    class Tag(Schema):
        __options__ = Options(collect_errors=collect)
        prefix: str = ''
        number: types.PositiveInt = 1

        @property
        def code(self) -> types.PositiveInt:
            return self.prefix + str(self.number)

        @property
        @Field(dependencies=['number'])
        def half(self) -> types.PositiveInt:
            return self.number - 3
    Tag.__name__ = 'Tag' + ('C' if collect else 'P')
    return Tag


TAG = {False: _mk_prop(False), True: _mk_prop(True)}


@ob('computed-property', marks=['accept', 'reject'], budget=(60, 200),
    bounds='Schema with two typed output properties computed from the fields (one yields a non-numeric string for some inputs, one a '
           'non-positive number); prefix picked from {"", "7", "A"}, number picked from 8 ints: with collect_errors the same inputs are '
           'accepted, with the same value, as without')
def computed_property(V):
    data = {'prefix': V.pick('prefix', ['', '7', 'A'])}
    k = V.pick('nk', ['int', 'absent', 'bad'])
    if k == 'int':
        data['number'] = V.pick('number', [-2, 0, 1, 2, 3, 4, 5, 12])   # str(symbolic int) into Decimal is unreliable under CrossHair
    elif k == 'bad':
        data['number'] = 'x'
    ra, rb = attempt(TAG[False], **data), attempt(TAG[True], **data)
    det = lambda: 'Tag(**%r): fail-fast -> %r ; collecting -> %r' % (data, ra if ra[0] != 'ok' else dict(ra[1]), rb if rb[0] != 'ok' else dict(rb[1]))
    V.check(ra[0] != 'crash' and rb[0] != 'crash', 'property:crash', det)
    V.check(ra[0] == rb[0], 'property:verdict', det)
    if ra[0] == 'ok':
        V.check(dict(ra[1]) == dict(rb[1]), 'property:value', det)
        V.cover('accept')
    else:
        got = collected_items(rb[1])
        # one entry per failing top-level item (field or property), each named
        V.check(got is not None and None not in got and len(set(got)) == len(got) and set(got) <= {'prefix', 'number', 'code', 'half'},
                'property:items', lambda: det() + ' ; collected items %r' % (got,))
        V.cover('reject')


# ------------------------------------------------------------------ the cap on functions that collect extra keywords
def _mk_kw(cap):
    @utype.parse(options=Options(collect_errors=True, max_errors=cap))
    def h(a: types.PositiveInt, b: types.PositiveInt = 1, *, c: types.PositiveInt = 2, **kw: types.PositiveInt):
        return a, b, c, kw
    return h


H_COLL = {cap: _mk_kw(cap) for cap in (1, 2, 3)}


@ob('function/var-kwargs-cap', marks=['reject'], budget=(60, 200),
    bounds='@parse(options=Options(collect_errors=True, max_errors=cap)) def h(a, b=1, *, c=2, **kw: PositiveInt), cap in 1..3; a, b, c and '
           'two extra keywords each valid (1) or invalid (0 / "x") by solver choice: the collected error holds min(cap, failing) entries, '
           'each naming a failing item once')
def function_var_kwargs_cap(V):
    cap = V.pick('cap', [1, 2, 3])
    kwargs, failing = {}, set()
    for name in ('a', 'b', 'c', 'p', 'q'):
        k = V.pick(name + '_kind', ['good', 'zero', 'bad'])
        kwargs[name] = {'good': 1, 'zero': 0, 'bad': 'x'}[k]
        if k != 'good':
            failing.add(name)
    r = attempt(H_COLL[cap], **kwargs)
    det = lambda: 'h(**%r) max_errors=%d -> %r %r ; failing %r' % (kwargs, cap, r[0], collected_items(r[1]) if r[0] != 'ok' else r[1], sorted(failing))
    V.check(r[0] != 'crash', 'function:crash', det)
    V.check((r[0] == 'ok') == (not failing), 'function:verdict-vs-params', det)
    if r[0] == 'ok':
        return
    got = collected_items(r[1])
    if got is not None:
        got = [str(g).split(':')[-1] for g in got]      # (an extra keyword is reported as '**kw:<name>')
    V.check(got is not None and len(got) == min(cap, len(failing)) and set(got) <= failing and len(set(got)) == len(got),
            'function:capped-items:var-kwargs', det)
    V.cover('reject')
