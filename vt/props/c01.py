"""C01 -- parsed results always conform to the declared type and constraints"""
from typing import List, Optional

import utype
from utype import Field, Options, Schema, exc, types
from utype.utils.transform import type_transform
from vt import typedesc as td
from vt.conv import GROUPS, I, S, parse, real, small, sym_flags, tiny
from vt.ob import ob
from vt.h import attempt
from vt.values import value

PROP = 'C01'
ASSUMPTIONS = [
    'conformance oracle vt/typedesc.py:conforms: instance of the source type (True is an int) plus every strict constraint '
    'restated from docs/en/references/rule.md, recursively over elements / keys / values / fields; built from the same '
    'descriptor as the real type, never from the library\'s own type objects',
    'failures of any kind are ignored here (C04); exempt options (preserve policies, ignore_constraints, '
    'unresolved_types=ignore) are never set; declared defaults are trusted',
]

def _conform(V, group):
    with V.notrace():
        for d in GROUPS[group]:
            real(d)
    d = V.pick('T', GROUPS[group])
    T = real(d)
    o = sym_flags(V)
    x = value(V, sym_int=group in ('scalar', 'constrained', 'generic', 'nested', 'dataclass'))
    r = parse(T, x, o)
    if r[0] != 'ok':
        V.cover('reject')
        return
    V.check(td.conforms(d, r[1]), 'conform:' + td.show(d).split('{')[0].split('[')[0],
            lambda: '%s options=%r input=%r -> %r (%s) does not conform' % (td.show(d), o, x, r[1], type(r[1]).__name__))
    V.cover('accept')


for _g in GROUPS:
    ob('conform/' + _g, marks=['accept', 'reject'], budget=(50, 600), per_path=(10, 20), exhaustive=False,
       bounds='T in {%s}; input from the shared value generator (solver ints, special floats, vocabulary / symbolic strings, '
              'bytes-likes, hostile objects, containers / mappings of small atoms); no_explicit_cast / no_data_loss / '
              'collect_errors solver-picked; on success the result must conform recursively' % ', '.join(
                  td.show(d) for d in GROUPS[_g]),
       out='text parsing beyond the vocabularies; tree not expected to close (solver-driven exploration, every path '
           'replayed concretely)')((lambda g: lambda V: _conform(V, g))(_g))


# ------------------------------------------------------------------ closing obligations with symbolic declarations
@ob('sym/int-bounds', marks=['accept', 'reject'], budget=(60, 300),
    bounds='Rule[int](ge=a, lt=b), a and b unbounded solver ints; x = unbounded solver int | bool | None | numeric string | '
           'float | other; flags solver-picked')
def sym_int(V):
    a, b = V.int('a'), V.int('b')
    cons = {}
    if V.bool('has_ge'):
        cons['ge'] = a
    if V.bool('has_lt'):
        cons['lt'] = b
    if not cons:
        return
    d = ('rule', I, cons)
    try:
        T = td.make(d)
    except exc.ConfigError:
        return
    o = sym_flags(V)
    x = small(V, 'x')
    r = parse(T, x, o)
    if r[0] == 'ok':
        V.check(td.conforms(d, r[1]), 'conform:sym-int', lambda: '%r options=%r input=%r -> %r' % (cons, o, x, r[1]))
        V.cover('accept')
    else:
        V.cover('reject')


def _sym_container(V, kind):
    a = V.int('a', -3, 3)
    e = ('rule', I, {'ge': a})
    d = {'list': ('list', e), 'set': ('set', e), 'vtuple': ('vtuple', e), 'tuple': ('tuple', [e, S]), 'dict': ('dict', e, e),
         'optlist': ('list', ('opt', e)), 'unionlist': ('list', ('union', e, S))}[kind]
    T = td.make(d)
    o = sym_flags(V, few=kind in ('optlist', 'unionlist'))
    n = V.pick('n', [0, 1, 2, 3] if V.thorough else [0, 1] if kind in ('dict', 'union-int-list', 'union-pos-str') else [0, 1, 2])
    shape = V.pick('shape', ['list', 'tuple', 'set'])
    # hashing a symbolic int (set members, dict keys) makes z3 enumerate: those shapes get picked ints
    hashed = shape == 'set' or kind in ('dict', 'set')
    xs = [tiny(V, 'e%d' % i, hashed) for i in range(n)]
    if kind == 'dict':
        x = {}
        for i, v in enumerate(xs):
            try:
                x[v] = xs[(i + 1) % len(xs)]
            except TypeError:
                x[i] = v
    else:
        try:
            x = {'list': list, 'tuple': tuple, 'set': set}[shape](xs)
        except TypeError:
            x = xs
    r = parse(T, x, o)
    if r[0] == 'ok':
        V.check(td.conforms(d, r[1]), 'conform:sym-' + kind,
                lambda: '%s options=%r input=%r -> %r' % (td.show(d), o, x, r[1]))
        V.cover('accept')
    else:
        V.cover('reject')


for _k in ('list', 'set', 'vtuple', 'tuple', 'dict', 'optlist', 'unionlist'):
    ob('sym/' + _k, marks=['accept'] if _k == 'unionlist' else ['accept', 'reject'], exhaustive=(True, False), budget=(160 if ('list' in _k and _k != 'list') or _k == 'set' else 100, 500),
       bounds='%s over Rule[int](ge=a), a in -3..3 symbolic; input list / tuple / set (dict for dict) of n <= 2 (1 for dict and the staged unions; 3 thorough) '
              'elements: solver int in -6..6 (picked from {-7,-1,0,1,7} where they get hashed: set input / output, dict keys) | bool | None | "5" | 1.5 | "x"; flags solver-picked' % _k,
       out='larger containers')((lambda k: lambda V: _sym_container(V, k))(_k))


# ------------------------------------------------------------------ decorated functions: arguments and result
SEEN = []
PI = ('rule', I, {'gt': 0})


@utype.parse
def fn(a: types.PositiveInt, b: List[int] = None, *rest: types.PositiveInt, k: Optional[str] = None,
       **kw: types.PositiveInt) -> types.PositiveInt:
    SEEN.append((a, b, rest, k, kw))
    return kw.get('ret', a)


@utype.parse
def ret_fn(v, mode: str = 'x') -> List[types.PositiveInt]:
    return v


@utype.parse(options=Options(addition=True))
def kw_fn(a: int = 0, **kw: types.PositiveInt):
    SEEN.append((a, None, (), None, kw))
    return kw


@utype.parse(options=Options(addition=True, collect_errors=True))
def kw_fn_collect(a: int = 0, **kw: List[types.PositiveInt]):
    SEEN.append((a, None, (), None, kw))
    return kw


@utype.parse(options=Options(collect_errors=True))
def ret_fn_collect(v, mode: str = 'x') -> List[types.PositiveInt]:
    return v


@utype.parse(options=Options(collect_errors=True))
def ret_fn_collect_int(v) -> types.PositiveInt:
    return v


@utype.parse(options=Options(collect_errors=True))
async def ret_fn_async(v) -> types.PositiveInt:
    return v


def run_sync(aw):
    it = aw.__await__()
    try:
        for _ in range(100):
            next(it)
    except StopIteration as e:
        return e.value
    raise RuntimeError('awaitable suspended')


@utype.parse
def ret_fn_none(x) -> None:
    return x


@ob('function', marks=['accept', 'reject'], budget=(90, 300), exhaustive=False,
    bounds='@parse def fn(a: PositiveInt, b: List[int], *rest: PositiveInt, k: Optional[str], **kw: PositiveInt) -> PositiveInt '
           'with solver-chosen arguments: the body only ever sees conforming arguments and the caller only a conforming result; '
           'and functions returning their raw argument under -> List[PositiveInt] / -> PositiveInt / -> None, with and without collect_errors, sync and async')
def function(V):
    which = V.pick('which', ['args', 'return', 'kwargs-with-addition-option'])
    if which == 'kwargs-with-addition-option':
        del SEEN[:]
        lst = V.bool('list_valued')
        v1, v2 = small(V, 'k1'), small(V, 'k2')
        try:
            (kw_fn_collect if lst else kw_fn)(1, p=v1, q=v2)
        except Exception:  # noqa
            V.cover('reject')
            return
        seen_kw = SEEN[0][4]
        want = ('list', PI) if lst else PI
        V.check(all(td.conforms(want, x) for x in seen_kw.values()), 'conform:var-kwargs',
                lambda: 'kw_fn%s(1, p=%r, q=%r): body saw %r' % ('_collect' if lst else '', v1, v2, seen_kw))
        V.cover('accept')
        return
    if which == 'return':
        x = value(V)
        variant = V.pick('variant', ['plain', 'collect_errors', 'collect_errors-int', 'collect_errors-async', 'none'])
        want = ('list', PI) if variant in ('plain', 'collect_errors') else ('none',) if variant == 'none' else PI
        try:
            if variant == 'none':
                r = ret_fn_none(x)
            elif variant == 'plain':
                r = ret_fn(x)
            elif variant == 'collect_errors':
                r = ret_fn_collect(x)
            elif variant == 'collect_errors-int':
                r = ret_fn_collect_int(x)
            else:
                r = run_sync(ret_fn_async(x))
        except Exception:  # noqa
            V.cover('reject')
            return
        V.check(td.conforms(want, r), 'conform:return', lambda: 'ret_fn[%s](%r) -> %r' % (variant, x, r))
        V.cover('accept')
        return
    del SEEN[:]
    a = small(V, 'a')
    args = [a]
    kwargs = {}
    if V.bool('has_b'):
        args.append(V.pick('b', [[1], ['2', 3.0], 'x', None, '1,2', (True,), [None]]))
        for i in range(V.pick('n_rest', [0, 1, 2])):
            args.append(small(V, 'r%d' % i))
    if V.bool('has_k'):
        kwargs['k'] = V.pick('k', ['s', 5, None, b'x'])
    if V.bool('has_kw'):
        kwargs['ret'] = small(V, 'ret')
    try:
        r = fn(*args, **kwargs)
    except Exception:  # noqa
        V.cover('reject')
        return
    V.check(len(SEEN) == 1, 'conform:body-count', lambda: repr(SEEN))
    sa, sb, srest, sk, skw = SEEN[0]
    det = lambda: 'fn(*%r, **%r): body saw %r ; returned %r' % (args, kwargs, SEEN[0], r)
    V.check(td.conforms(PI, sa), 'conform:param-a', det)
    V.check(sb is None or td.conforms(('list', I), sb), 'conform:param-b', det)
    V.check(all(td.conforms(PI, x) for x in srest), 'conform:var-args', det)
    V.check(sk is None or isinstance(sk, str), 'conform:param-k', det)
    V.check(all(td.conforms(PI, x) for x in skw.values()), 'conform:var-kwargs', det)
    V.check(td.conforms(PI, r), 'conform:result', det)
    V.cover('accept')


@ob('sym/float-bounds', marks=['accept', 'reject'], budget=(60, 200),
    bounds='Rule[float] with one or two of gt/ge/lt/le (bounds picked from {0.0, 1.0, -1.5}); x = float picked from {0, 0.5, 1, +-1.5, -2, nan, +-inf} | "nan" | "inf" | "0.5" | b"nan" | solver int; flags solver-picked; an accepted result satisfies every bound',
    out='IEEE rounding')
def sym_float(V):
    cons = {}
    lo = V.pick('lo', [None, 'gt', 'ge'])
    hi = V.pick('hi', [None, 'lt', 'le'])
    if lo:
        cons[lo] = V.pick('a', [0.0, -1.5])
    if hi:
        cons[hi] = V.pick('b', [1.0, 0.0])
    if not cons:
        return
    d = ('rule', ('float',), cons)
    try:
        T = td.make(d)
    except exc.ConfigError:
        return
    o = sym_flags(V)
    k = V.pick('xk', ['float', 'text', 'int'])
    x = V.pick('xf', [0.0, 0.5, 1.0, -1.5, 1.5, -2.0, float('nan'), float('inf'), float('-inf')]) if k == 'float' else V.pick('xs', ['nan', 'inf', '-inf', '0.5', b'nan', 'NaN']) if k == 'text' else V.int('xi', -3, 3)
    r = parse(T, x, o)
    if r[0] == 'ok':
        V.check(td.conforms(d, r[1]), 'conform:sym-float', lambda: '%r options=%r input=%r -> %r' % (cons, o, x, r[1]))
        V.cover('accept')
    else:
        V.cover('reject')


# ------------------------------------------------------------------ field constraints on a type named by a forward reference
FWD_SRC = '''
from typing import List, Optional
import utype
from utype import Schema, Field, Param, Rule


class Order@@(Schema):
    quantity: 'Quantity@@' = Field(le=100)
    spare: 'Quantity@@' = Field(le=5, default=0)
    lots: List['Quantity@@'] = Field(default_factory=list, max_length=2)


@utype.parse
def order@@(quantity: 'Quantity@@' = Param(le=100), *more: 'Quantity@@') -> 'Quantity@@':
    return quantity + sum(more)


class Quantity@@(int, Rule):
    ge = 0
'''
_FWD_N = [0]


@ob('forward-field', marks=['accept', 'reject'], budget=(120, 300),
    bounds="a data class and a decorated function whose field / parameter is annotated with the NAME of a constrained type defined "
           "later ('Quantity': ge=0) plus constraints of its own (Field(le=100), Field(le=5), List['Quantity'] with max_length=2, "
           "Param(le=100)); values unbounded solver ints | \"5\" | \"x\"; freshly declared per path (first call included): an accepted "
           'value satisfies the constraints of the named type and of the field')
def forward_field(V):
    import sys
    import types as pytypes
    with V.notrace():
        _FWD_N[0] += 1
        n = _FWD_N[0]
        name = 'vt_c01_fwd_%d' % n
        mod = pytypes.ModuleType(name)
        sys.modules[name] = mod
        exec(compile(FWD_SRC.replace('@@', str(n)), name + '.py', 'exec'), mod.__dict__)
    try:
        def val(nm):
            k = V.pick(nm + '_k', ['int', 'num', 'bad'])
            return V.int(nm) if k == 'int' else '5' if k == 'num' else 'x'
        if V.bool('function'):
            q = val('q')
            more = [val('m%d' % i) for i in range(V.pick('n_more', [0, 1]))]
            r = attempt(getattr(mod, 'order%d' % n), q, *more)
            if r[0] != 'ok':
                V.check(r[0] == 'err', 'conform:forward-field:crash', lambda: 'order(%r, *%r) -> %r' % (q, more, r))
                V.cover('reject')
                return
            V.check(type(r[1]) is int and r[1] >= 0, 'conform:forward-field:return', lambda: 'order(%r, *%r) -> %r' % (q, more, r[1]))
            qq = 5 if q == '5' else q
            V.check(isinstance(qq, int) and 0 <= qq <= 100 and all((5 if m == '5' else m) >= 0 for m in more if m != 'x') and 'x' not in more,
                    'conform:forward-field:parameter', lambda: 'order(%r, *%r) accepted -> %r' % (q, more, r[1]))
            V.cover('accept')
            return
        d = {'quantity': val('quantity')}
        if V.bool('has_spare'):
            d['spare'] = val('spare')
        if V.bool('has_lots'):
            d['lots'] = [val('l%d' % i) for i in range(V.pick('n_lots', [1, 2, 3]))]
        r = attempt(getattr(mod, 'Order%d' % n), **d)
        if r[0] != 'ok':
            V.check(r[0] == 'err', 'conform:forward-field:crash', lambda: 'Order(**%r) -> %r' % (d, r))
            V.cover('reject')
            return
        o = r[1]
        ok = (type(o.quantity) is int and 0 <= o.quantity <= 100 and type(o.spare) is int and 0 <= o.spare <= 5
              and isinstance(o.lots, list) and len(o.lots) <= 2 and all(type(x) is int and x >= 0 for x in o.lots))
        V.check(ok, 'conform:forward-field', lambda: 'Order(**%r) -> %r' % (d, dict(o)))
        V.cover('accept')
    finally:
        sys.modules.pop(name, None)


# ------------------------------------------------------------------ fields that take no input, beside additional keys
class NoInAdd(Schema):
    __options__ = Options(addition=True)
    title: str = ''
    views: int = Field(no_input=True, default=0)
    score: int = Field(mode='r', default=1)


class NoInAddW(NoInAdd):
    __options__ = Options(addition=True, mode='w')


class NoInAddInt(Schema):
    __options__ = Options(addition=int)
    views: int = Field(no_input=True, default=0)


@utype.parse
def no_in_fn(title: str = '', views: int = utype.Param(0, no_input=True), **extra: int):
    return dict(title=title, views=views, extra=extra)


@ob('no-input-beside-additions', marks=['accept', 'reject'], budget=(40, 120),
    bounds='Schemas with Options(addition=True / int) (and mode="w") holding a no_input field, a mode="r" field, and a @parse function '
           'with a no-input parameter and **extra: int; input keys solver-picked from {title, views, score, zz} with values "abc" | "5" | 3 | '
           '[1]: every declared field of the result holds a value of its declared type (a key that spells a no-input field never '
           'arrives there through the additional keys)')
def no_input_beside_additions(V):
    which = V.pick('which', ['NoInAdd', 'NoInAddW', 'NoInAddInt', 'function'])
    data = {}
    for k in ('title', 'views', 'score', 'zz'):
        if V.bool('has_' + k):
            data[k] = V.pick('v_' + k, ['abc', '5', 3, [1]])
    if which == 'function':
        r = attempt(no_in_fn, **data)
        if r[0] != 'ok':
            V.check(r[0] == 'err', 'conform:no-input:crash', lambda: 'no_in_fn(**%r) -> %r' % (data, r))
            V.cover('reject')
            return
        got = r[1]
        V.check(type(got['views']) is int and type(got['title']) is str and all(type(v) is int for v in got['extra'].values()),
                'conform:no-input-field', lambda: 'no_in_fn(**%r): body saw %r' % (data, got))
        V.cover('accept')
        return
    cls = {'NoInAdd': NoInAdd, 'NoInAddW': NoInAddW, 'NoInAddInt': NoInAddInt}[which]
    r = attempt(cls, **data)
    if r[0] != 'ok':
        V.check(r[0] == 'err', 'conform:no-input:crash', lambda: '%s(**%r) -> %r' % (which, data, r))
        V.cover('reject')
        return
    got = dict(r[1])
    declared = cls.__parser__.fields
    ok = all(type(got[k]) is (str if k == 'title' else int) for k in ('views', 'title', 'score') if k in declared and k in got)
    V.check(ok, 'conform:no-input-field', lambda: '%s(**%r) -> %r' % (which, data, got))
    V.cover('accept')
