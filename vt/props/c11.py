"""C11 -- exclude / preserve policies touch only the offending elements"""
from decimal import Decimal
from typing import Dict, FrozenSet, List, Optional, Set, Tuple, Union

import utype
from utype import Field, Options, Rule, Schema, exc, types
from utype.utils.transform import type_transform
from vt.ob import ob
from vt.h import attempt

PROP = 'C11'
ASSUMPTIONS = [
    "an element is an 'offender' iff converting it alone with the element type (same conversion options, policy "
    "'throw') fails -- offenders are computed, never assumed (None is a valid lenient int)",
    'the element type is Rule[int](ge=a) with a symbolic threshold a, so offending ints are decided by the solver',
]

POLICIES = ['throw', 'exclude', 'preserve']


def elem_type(V):
    a = V.int('a', -2, 2)
    return a, Rule.annotate(int, constraints={'ge': a}, name='IntGe')


def elements(V, n_max, name='e'):
    n = V.int(name + '_n', 0, n_max)
    size = 0
    while size < n_max and not (n == size):
        size += 1
    out = []
    for i in range(size):
        k = V.pick('%s%d_kind' % (name, i), ['int', 'bad', 'num'])
        if k == 'int':
            out.append(V.int('%s%d' % (name, i), -4, 4))
        elif k == 'bad':
            out.append('x')
        else:
            out.append(V.pick('%s%d_s' % (name, i), ['5', '-9', None]) if V.thorough else '5')
    return out


def alone(ET, e, o=None):
    """('ok', converted) | ('err',)"""
    r = attempt(type_transform, e, ET, Options(**(o or {})))
    return ('ok', r[1]) if r[0] == 'ok' else ('err',)


def same(a, b):
    return type(a) is type(b) and a == b


def seq_eq(a, b):
    return type(a) is type(b) and len(a) == len(b) and all(same(x, y) for x, y in zip(a, b))


# ------------------------------------------------------------------ ordered sequences
def _seq(V, origin):
    a, ET = elem_type(V)
    wrapped = origin.startswith('optional-') or origin.startswith('union-')
    wrap = origin.split('-')[0] if wrapped else None
    origin = origin.split('-')[-1]
    T = {'list': List[ET], 'tuple': Tuple[ET, ...]}[origin]
    if wrap == 'optional':
        # the container is one argument of a union: the union's stricter passes must not apply the policy early
        T = Optional[T]
    elif wrap == 'union':
        T = Union[T, Dict[int, ET]]      # (the elements of the vocabulary never form int-keyed pairs: the mapping argument never takes the input)
    T = Rule.parse_annotation(T)
    pol = V.pick('invalid_items', POLICIES)
    xs = elements(V, V.T(3, 4))
    x = list(xs) if origin == 'list' else tuple(xs)
    solo = [alone(ET, e) for e in xs]
    r = attempt(type_transform, x, T, Options(invalid_items=pol))
    d = lambda: '%s[int>=%d] invalid_items=%s input=%r -> %r ; element verdicts %r' % (origin, a, pol, x, r, solo)
    V.check(r[0] != 'crash', 'seq:crash', d)
    bad = [i for i, s in enumerate(solo) if s[0] == 'err']
    ctor = list if origin == 'list' else tuple
    if pol == 'throw':
        V.check((r[0] == 'ok') == (not bad), 'seq:throw-verdict', d)
        if r[0] == 'ok':
            V.check(seq_eq(r[1], ctor(s[1] for s in solo)), 'seq:throw-value', d)
    elif pol == 'exclude':
        V.check(r[0] == 'ok', 'seq:exclude-rejected', d)
        V.check(seq_eq(r[1], ctor(s[1] for s in solo if s[0] == 'ok')), 'seq:exclude-value', d)
    else:
        V.check(r[0] == 'ok', 'seq:preserve-rejected', d)
        want = ctor(s[1] if s[0] == 'ok' else xs[i] for i, s in enumerate(solo))
        V.check(seq_eq(r[1], want), 'seq:preserve-value', d)
        if bad:
            V.check(all(r[1][i] is xs[i] for i in bad), 'seq:preserve-altered', d)
    V.cover('offender' if bad else 'clean')


for _o in ('list', 'tuple', 'optional-list', 'union-list', 'optional-tuple'):
    ob('seq/' + _o, marks=['offender', 'clean'], budget=(60, 400), exhaustive=(True, False),
       bounds='%s (optional-: Optional[...], union-: Union[..., Dict[int, E]]) of n <= 3 (4 thorough) elements, each a solver int in -4..4 | "x" | "5" (thorough: also "-9", None); element type '
              'Rule[int](ge=a), a in -2..2 symbolic; invalid_items policy solver-picked' % _o,
       out='longer sequences; nested containers (see nested/*)')((lambda o: lambda V: _seq(V, o))(_o))


# ------------------------------------------------------------------ sets
def _set(V, origin):
    a, ET = elem_type(V)
    T = Rule.parse_annotation({'set': Set[ET], 'frozenset': FrozenSet[ET]}[origin])
    pol = V.pick('invalid_items', POLICIES)
    xs = elements(V, V.T(3, 4))
    ctor = set if origin == 'set' else frozenset
    src = V.pick('input_kind', ['set', 'list'])
    x = ctor(xs) if src == 'set' else list(xs)
    members = list(x)
    solo = [alone(ET, e) for e in members]
    r = attempt(type_transform, x, T, Options(invalid_items=pol))
    d = lambda: '%s[int>=%d] invalid_items=%s input=%r -> %r' % (origin, a, pol, x, r)
    V.check(r[0] != 'crash', 'set:crash', d)
    bad = [e for e, s in zip(members, solo) if s[0] == 'err']
    good = ctor(s[1] for s in solo if s[0] == 'ok')
    if pol == 'throw':
        V.check((r[0] == 'ok') == (not bad), 'set:throw-verdict', d)
        want = good
    elif pol == 'exclude':
        V.check(r[0] == 'ok', 'set:exclude-rejected', d)
        want = good
    else:
        V.check(r[0] == 'ok', 'set:preserve-rejected', d)
        want = ctor(list(good) + bad)
    if r[0] == 'ok':
        V.check(type(r[1]) is ctor and r[1] == want and all(any(same(v, w) for w in want) for v in r[1]),
                'set:%s-value' % pol, d)
    V.cover('offender' if bad else 'clean')


for _o in ('set', 'frozenset'):
    ob('set/' + _o, marks=['offender', 'clean'], budget=(60, 400), exhaustive=(True, False),
       bounds='%s built from n <= 3 (4 thorough) elements as for seq, given either as a %s or as a list' % (_o, _o),
       out='as seq')((lambda o: lambda V: _set(V, o))(_o))


# ------------------------------------------------------------------ mappings
def _map(V, kp):
    a, ET = elem_type(V)
    T = Rule.parse_annotation(Dict[ET, ET])
    vp = V.pick('invalid_values', POLICIES)
    n = V.pick('n', [0, 1, 2] if not V.thorough else [0, 1, 2, 3])
    KEYS = [3, -3, 'x', '5', 0, 1] if V.thorough else [3, -3, 'x', '5']
    x = {}
    for i in range(n):
        k = V.pick('k%d' % i, KEYS)
        vk = V.pick('v%d_kind' % i, ['int', 'bad', 'num'])
        v = V.int('v%d' % i, -4, 4) if vk == 'int' else 'x' if vk == 'bad' else '5'
        x[k] = v
    r = attempt(type_transform, x, T, Options(invalid_keys=kp, invalid_values=vp))
    d = lambda: 'Dict[int>=%d, int>=%d] invalid_keys=%s invalid_values=%s input=%r -> %r' % (a, a, kp, vp, x, r)
    V.check(r[0] != 'crash', 'map:crash', d)
    want = {}
    must_fail = False
    offender = False
    for k, v in x.items():
        ks, vs = alone(ET, k), alone(ET, v)
        if ks[0] == 'err':
            offender = True
            if kp == 'throw':
                must_fail = True
                continue
            if kp == 'exclude':
                continue
            key = k
        else:
            key = ks[1]
        if vs[0] == 'err':
            offender = True
            if vp == 'throw':
                must_fail = True
                continue
            if vp == 'exclude':
                continue
            val = v
        else:
            val = vs[1]
        want[key] = val
    if must_fail:
        V.check(r[0] == 'err', 'map:accepted-offender', d)
    else:
        V.check(r[0] == 'ok', 'map:rejected', d)
        # two input keys may convert to the same key ('5' and 5): the later one wins in both
        V.check(type(r[1]) is dict and set(r[1]) == set(want) and all(same(r[1][k], want[k]) for k in want)
                and all(any(same(k, w) for w in want) for k in r[1]), 'map:value', d)
    V.cover('offender' if offender else 'clean')


for _kp in POLICIES:
    ob('map/keys-' + _kp, marks=['offender', 'clean'], budget=(90, 400), exhaustive=(True, False),
       bounds='Dict[IntGe, IntGe] with n <= 2 (3 thorough) entries, keys picked from {3,-3,"x","5"} (thorough: also 0, 1), '
              'values solver int -4..4 | "x" | "5"; invalid_keys=%s, invalid_values policy solver-picked' % _kp,
       out='nested mappings')((lambda kp: lambda V: _map(V, kp))(_kp))


# ------------------------------------------------------------------ data-class fields, extra keys
class FReq(Schema):
    __options__ = Options(invalid_values='exclude')
    r: int = Field(ge=0)
    o: int = Field(ge=0, required=False)
    d: int = Field(ge=0, default=7)


class FPlainBase(Schema):
    # declares the fields, carries no policy
    r: int = Field(ge=0)
    o: int = Field(ge=0, required=False)
    d: int = Field(ge=0, default=7)


class FInherit(FPlainBase):
    # the policy comes from the subclass, the fields are inherited
    __options__ = Options(invalid_values='exclude')


class FFac(Schema):
    __options__ = Options(invalid_values='exclude')
    r: int = Field(ge=0)
    o: int = Field(ge=0, required=False)
    d: int = Field(ge=0, default_factory=lambda: 7)


class FNoDef(Schema):
    __options__ = Options(invalid_values='exclude', no_default=True)
    r: int = Field(ge=0)
    o: int = Field(ge=0, required=False)
    d: int = Field(ge=0, default=7)


class FOn(Schema):
    r: int = Field(ge=0, on_error='preserve')
    o: int = Field(ge=0, required=False, on_error='exclude')
    d: int = Field(ge=0, default=7, on_error='exclude')


class FMode(Schema):
    __options__ = Options(invalid_values='exclude', mode='w')
    r: int = Field(ge=0, required='w')
    o: int = Field(ge=0, required=False)
    d: int = Field(ge=0, default=7)


class FModeR(Schema):
    __options__ = Options(invalid_values='exclude', mode='r')
    r: int = Field(ge=0, required='w')
    o: int = Field(ge=0, required=False)
    d: int = Field(ge=0, default=7)


class FAdd(Schema):
    __options__ = Options(addition=int, invalid_values='exclude')
    r: int = 0


class FAddP(Schema):
    __options__ = Options(addition=int, invalid_values='preserve')
    r: int = 0


class FDep(Schema):
    __options__ = Options(invalid_values='exclude')
    a: int = Field(ge=0, default=7, dependencies=['b'])
    b: int = Field(ge=0, required=False)
    c: int = Field(ge=0, required=False, dependencies=['b'])


class FDepStrict(Schema):
    a: int = Field(ge=0, default=7, dependencies=['b'])
    b: int = Field(ge=0, required=False)
    c: int = Field(ge=0, required=False, dependencies=['b'])


class FAddD(Schema):
    __options__ = Options(addition=Decimal, invalid_values='exclude')
    r: int = 0


class FAddDP(Schema):
    __options__ = Options(addition=Decimal, invalid_values='preserve')
    r: int = 0


INF = float('inf')


def _val(V, name, extra=()):
    k = V.pick(name + '_kind', ['absent', 'int', 'bad', 'num'] + list(extra))
    if k == 'absent':
        return None, False
    if k == 'int':
        return V.int(name, -3, 3), True
    if k == 'inf':
        # int(inf) raises OverflowError, Decimal('x') raises InvalidOperation: failures that are neither TypeError nor ValueError
        return INF, True
    return ('x' if k == 'bad' else '5'), True


def conv_ge0(v):
    if isinstance(v, int):
        return ('ok', v) if v >= 0 else ('err',)
    if v == '5':
        return ('ok', 5)
    return ('err',)


@ob('fields', marks=['offender', 'clean', 'required-offender'], budget=(60, 200),
    bounds='Schemas with Options(invalid_values=exclude) / per-field on_error (preserve, exclude) / r required only in mode w (class in mode w and in mode r) / d from a default_factory / Options(no_default=True) / the policy set by a subclass over inherited fields / given at parse time: fields r (required), '
           'o (optional), d (default 7), all int ge 0; each value absent | solver int -3..3 | "x" | "5"',
    out='non-int fields')
def fields(V):
    which = V.pick('cls', ['options-exclude', 'field-on_error', 'required-in-mode', 'required-in-other-mode', 'default-factory', 'no_default',
                           'policy-on-subclass', 'policy-at-parse-time'])
    cls = {'options-exclude': FReq, 'field-on_error': FOn, 'required-in-mode': FMode, 'required-in-other-mode': FModeR,
           'default-factory': FFac, 'no_default': FNoDef, 'policy-on-subclass': FInherit, 'policy-at-parse-time': FPlainBase}[which]
    r_required = cls is not FModeR
    data = {}
    for n in ('r', 'o', 'd'):
        v, has = _val(V, n)
        if has:
            data[n] = v
    if which == 'policy-at-parse-time':
        r = attempt(cls.__from__, data, options=Options(invalid_values='exclude'))
    else:
        r = attempt(cls, **data)
    d = lambda: '%s(**%r) [%s] -> %r' % (cls.__name__, data, which, r if r[0] != 'ok' else ('ok', dict(r[1])))
    V.check(r[0] != 'crash', 'fields:crash', d)
    want = {}
    fail = False
    offender = False
    pol = {'r': 'preserve' if cls is FOn else 'exclude', 'o': 'exclude', 'd': 'exclude'}
    for n in ('r', 'o', 'd'):
        if n in data:
            c = conv_ge0(data[n])
            if c[0] == 'ok':
                want[n] = c[1]
                continue
            offender = True
            if pol[n] == 'preserve':
                want[n] = data[n]
                continue
            if n == 'r' and r_required:
                fail = True          # a required field is never silently excluded
                V.cover('required-offender')
            elif n == 'd' and cls is not FNoDef:
                want[n] = 7
        else:
            if n == 'r' and r_required:
                fail = True
            elif n == 'd' and cls is not FNoDef:
                want[n] = 7
    if fail:
        V.check(r[0] == 'err', 'fields:required-excluded-silently', d)
    else:
        V.check(r[0] == 'ok', 'fields:rejected', d)
        got = dict(r[1])
        V.check(set(got) == set(want) and all(same(got[k], want[k]) for k in want), 'fields:value', d)
    V.cover('offender' if offender else 'clean')


@ob('extra-keys', marks=['offender', 'clean'], budget=(60, 200),
    bounds='Schema with addition=int / addition=Decimal and invalid_values exclude / preserve; up to 2 extra keys, each value solver int | '
           '"x" | "5" | float inf (whose conversion fails with OverflowError / InvalidOperation rather than TypeError / ValueError)', out='other addition types')
def extra_keys(V):
    cls = V.pick('cls', [FAdd, FAddP, FAddD, FAddDP])
    AT = Decimal if cls in (FAddD, FAddDP) else int
    data = {}
    for n in ('p', 'q'):
        v, has = _val(V, n, extra=('inf',))
        if has:
            data[n] = v
    r = attempt(cls, **data)
    d = lambda: '%s(**%r) -> %r' % (cls.__name__, data, r if r[0] != 'ok' else ('ok', dict(r[1])))
    V.check(r[0] == 'ok', 'extra:' + ('crash' if r[0] == 'crash' else 'rejected'), d)
    want = {'r': 0}
    offender = False
    for n, v in data.items():
        c = alone(AT, v)
        if c[0] == 'ok':
            want[n] = c[1]
        else:
            offender = True
            if cls in (FAddP, FAddDP):
                want[n] = v
    got = dict(r[1])
    V.check(set(got) == set(want) and all(same(got[k], want[k]) for k in want), 'extra:value', d)
    V.cover('offender' if offender else 'clean')


# ------------------------------------------------------------------ *args of decorated functions
def _mk_fn(pol):
    @utype.parse(options=Options(invalid_items=pol))
    def f(*args: types.PositiveInt):
        return args
    return f


FNS = {p: _mk_fn(p) for p in POLICIES}


@ob('var-args', marks=['offender', 'clean'], budget=(60, 200),
    bounds='@parse(options=Options(invalid_items=p)) def f(*args: PositiveInt) with n <= 3 positional arguments, each a '
           'solver int -3..3 | "x" | "5"', out='**kwargs values (C08)')
def var_args(V):
    pol = V.pick('invalid_items', POLICIES)
    xs = elements(V, 3)
    f = FNS[pol]
    r = attempt(f, *xs)
    d = lambda: 'f(*%r) invalid_items=%s -> %r' % (xs, pol, r)
    V.check(r[0] != 'crash', 'args:crash', d)
    solo = [alone(types.PositiveInt, e) for e in xs]
    bad = [i for i, s in enumerate(solo) if s[0] == 'err']
    if pol == 'throw':
        V.check((r[0] == 'ok') == (not bad), 'args:throw-verdict', d)
        want = tuple(s[1] for s in solo if s[0] == 'ok')
    elif pol == 'exclude':
        V.check(r[0] == 'ok', 'args:exclude-rejected', d)
        want = tuple(s[1] for s in solo if s[0] == 'ok')
    else:
        V.check(r[0] == 'ok', 'args:preserve-rejected', d)
        want = tuple(s[1] if s[0] == 'ok' else xs[i] for i, s in enumerate(solo))
    if r[0] == 'ok':
        V.check(seq_eq(tuple(r[1]), want), 'args:%s-value' % pol, d)
    V.cover('offender' if bad else 'clean')


# ------------------------------------------------------------------ nested containers
@ob('nested/list-of-list', marks=['offender', 'clean'], budget=(150, 400), exhaustive=(True, False),
    bounds='List[List[IntGe]] with <= 2 inner lists of <= 2 elements; the policy applies at both levels: an inner list '
           'is an offender only under throw', out='deeper nesting')
def nested(V):
    a, ET = elem_type(V)
    T = Rule.parse_annotation(List[List[ET]])
    pol = V.pick('invalid_items', POLICIES)
    outer = []
    for j in range(V.pick('outer_n', [1, 2])):
        outer.append(elements(V, 2, name='in%d_' % j))
    r = attempt(type_transform, outer, T, Options(invalid_items=pol))
    d = lambda: 'List[List[int>=%d]] invalid_items=%s input=%r -> %r' % (a, pol, outer, r)
    V.check(r[0] != 'crash', 'nested:crash', d)
    any_bad = False
    want = []
    for inner in outer:
        solo = [alone(ET, e) for e in inner]
        if any(s[0] == 'err' for s in solo):
            any_bad = True
        if pol == 'preserve':
            want.append([s[1] if s[0] == 'ok' else inner[i] for i, s in enumerate(solo)])
        else:
            want.append([s[1] for s in solo if s[0] == 'ok'])
    if pol == 'throw':
        V.check((r[0] == 'ok') == (not any_bad), 'nested:throw-verdict', d)
    else:
        V.check(r[0] == 'ok', 'nested:rejected', d)
    if r[0] == 'ok':
        V.check(len(r[1]) == len(want) and all(seq_eq(x, y) for x, y in zip(r[1], want)), 'nested:value', d)
    V.cover('offender' if any_bad else 'clean')


@ob('fields/dependencies', marks=['offender', 'clean'], budget=(60, 200),
    bounds="Schema with Options(invalid_values='exclude'): a (default 7, depends on b), b optional, c optional (depends on b); each value "
           'absent | solver int -3..3 | "x" | "5": the outcome is that of strict parsing with the offending fields removed (an excluded '
           'field no longer requires its dependencies)')
def fields_dependencies(V):
    data = {}
    for n in ('a', 'b', 'c'):
        v, has = _val(V, n)
        if has:
            data[n] = v
    clean = {k: v for k, v in data.items() if conv_ge0(v)[0] == 'ok'}
    r = attempt(FDep, **data)
    want = attempt(FDepStrict, **clean)
    d = lambda: 'FDep(**%r) -> %r ; strict parsing of %r -> %r' % (data, r if r[0] != 'ok' else ('ok', dict(r[1])), clean,
                                                                 want if want[0] != 'ok' else ('ok', dict(want[1])))
    V.check(r[0] != 'crash', 'fields:crash', d)
    excluded_with_default = 'a' in data and 'a' not in clean
    V.check(r[0] == want[0], 'fields:dependencies:verdict' + (':excluded-field-with-default' if excluded_with_default else ''), d)
    if r[0] == 'ok':
        V.check(dict(r[1]) == dict(want[1]), 'fields:dependencies:value', d)
    V.cover('offender' if len(clean) != len(data) else 'clean')
