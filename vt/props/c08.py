"""C08 -- decorated functions get Python's binding with conforming arguments and result"""
from typing import AsyncGenerator, Generator, List

import utype
from utype import Param, exc
from vt.ob import ob

PROP = 'C08'
ASSUMPTIONS = [
    'reference = Python itself: an undecorated twin with the same signature (plain defaults) is called with the same call '
    'shape; calls Python refuses to bind (TypeError from the twin) are outside the statement; aliased spellings are mapped to '
    'the parameter name before the twin is called',
    'all annotated parameters are int: a conforming converted value is the int itself for ints and 5 for "5"; "x" is invalid',
    'coroutines / async generators contain no real suspension and are stepped manually (no event loop scheduling)',
]

REC = []


def record(**kw):
    REC.append(kw)
    return kw


# ---------------------------------------------------------------- signatures: decorated function + undecorated twin
def s1(a: int, b: int = 2, *, c: int, d: int = 4):
    return record(a=a, b=b, c=c, d=d)


def s2(a: int, /, b: int = 2, *, c: int = 3):
    return record(a=a, b=b, c=c)


def s3(a: int, *args: int, k: int = 0, **kw: int):
    return record(a=a, args=args, k=k, kw=kw)


def s4(a: int, _skip=None, b: int = 1):
    return record(a=a, _skip=_skip, b=b)


def s5_dec(a: int = Param(alias_from=['a2', 'a3']), b: int = Param(7, alias='bb'), c: List[int] = Param(default_factory=list)):
    return record(a=a, b=b, c=c)


def s5_twin(a, b=7, c=None):
    return record(a=a, b=b, c=[] if c is None else c)


def s6(a: int, b: int = 2, /, c: int = 3, *rest: int, d: int = 4):
    return record(a=a, b=b, c=c, rest=rest, d=d)


def s7_dec(a: int, b: int = 2, *, c: int = Param(10), d: List[int] = Param(default_factory=list), e: int = Param(alias_from=['e2'], default=5)):
    return record(a=a, b=b, c=c, d=d, e=e)


def s7_twin(a, b=2, *, c=10, d=None, e=5):
    return record(a=a, b=b, c=c, d=[] if d is None else d, e=e)


def s8_dec(a: int, *, c: int = Param()):
    return record(a=a, c=c)


def s8_twin(a, *, c):
    return record(a=a, c=c)


SIGS = {
    # name: (decorated, twin, positional parameter names in order, max positionals (None = *args), keyword spellings
    #        {spelling: parameter}, accepts **kw, positional-only names)
    's1': (utype.parse(s1), s1, ['a', 'b'], 2, {'a': 'a', 'b': 'b', 'c': 'c', 'd': 'd'}, False, []),
    's2': (utype.parse(s2), s2, ['a', 'b'], 2, {'b': 'b', 'c': 'c'}, False, ['a']),
    's3': (utype.parse(s3), s3, ['a'], None, {'a': 'a', 'k': 'k'}, True, []),
    's3c': (utype.parse(options=utype.Options(collect_errors=True))(s3), s3, ['a'], None, {'a': 'a', 'k': 'k'}, True, []),
    's1c': (utype.parse(options=utype.Options(collect_errors=True))(s1), s1, ['a', 'b'], 2, {'a': 'a', 'b': 'b', 'c': 'c', 'd': 'd'}, False, []),
    's4': (utype.parse(s4), s4, ['a', '_skip', 'b'], 3, {'a': 'a', 'b': 'b'}, False, []),
    's5': (utype.parse(s5_dec), s5_twin, ['a', 'b'], 2, {'a': 'a', 'a2': 'a', 'a3': 'a', 'b': 'b', 'bb': 'b'}, False, []),
    's6': (utype.parse(s6), s6, ['a', 'b', 'c'], None, {'c': 'c', 'd': 'd'}, False, ['a', 'b']),
    's7': (utype.parse(s7_dec), s7_twin, ['a', 'b'], 2, {'b': 'b', 'c': 'c', 'e2': 'e'}, False, []),
    's8': (utype.parse(s8_dec), s8_twin, ['a'], 1, {'a': 'a', 'c': 'c'}, False, []),
}


def sym_value(V, name):
    k = V.pick(name + '_kind', ['int', 'num', 'bad'])
    if k == 'int':
        x = V.int(name)
        return x, x, True
    if k == 'num':
        return '5', 5, True
    return 'x', None, False


def _bind(V, sig):
    dec, twin, pos_names, max_pos, spellings, has_kw, _ = SIGS[sig]
    n_pos = V.pick('n_pos', list(range(0, (len(pos_names) + 2) if max_pos is None else max_pos + 1)))
    args, targs = [], []
    all_valid = True
    for i in range(n_pos):
        name = pos_names[i] if i < len(pos_names) else 'extra%d' % i
        if name == '_skip':
            v = V.pick('skipval', ['raw', 3])
            args.append(v)
            targs.append(v)
            continue
        raw, conv, ok = sym_value(V, 'p%d' % i)
        args.append(raw)
        targs.append(conv)
        all_valid = all_valid and ok
    kwargs, tkwargs = {}, {}
    for sp, param in spellings.items():
        if V.bool('kw_' + sp):
            raw, conv, ok = sym_value(V, 'k_' + sp)
            kwargs[sp] = raw
            if param in tkwargs:
                return          # two spellings of one parameter: not a call Python can express
            tkwargs[param] = conv
            all_valid = all_valid and ok
    if has_kw and V.bool('kw_extra'):
        raw, conv, ok = sym_value(V, 'k_extra')
        kwargs['zz'] = raw
        tkwargs['zz'] = conv
        all_valid = all_valid and ok
    del REC[:]
    try:
        twin(*targs, **tkwargs)
    except TypeError:
        V.cover('python-refuses')
        # Python itself would not bind this call: utype may be laxer (ignore extras), but if it runs the body every
        # annotated parameter must still hold a conforming value
        del REC[:]
        try:
            dec(*args, **kwargs)
        except Exception:  # noqa
            return
        for got in REC:
            for k, v in got.items():
                if k in ('a', 'b', 'c', 'd', 'e', 'k') and k != '_skip' and not (sig == 's5' and k == 'c') and not (sig == 's7' and k == 'd'):
                    V.check(type(v) is int, 'bind:body-ran-with-unconverted-parameter:' + k,
                            lambda: '%s(*%r, **%r): body saw %r' % (sig, args, kwargs, got))
        return
    want = REC.pop()
    del REC[:]
    try:
        dec(*args, **kwargs)
        out = ('ok',)
    except exc.ParseError as e:
        out = ('err', e)
    except Exception as e:  # noqa
        out = ('crash', e)
    det = lambda: '%s(*%r, **%r): python binding %r ; decorated -> %s, body saw %r' % (
        sig, args, kwargs, want, out[0] if out[0] == 'ok' else '%s %r' % (out[0], out[1]), REC)
    V.check(out[0] != 'crash', 'bind:crash', det)
    if not all_valid:
        V.check(out[0] == 'err', 'bind:invalid-argument-accepted', det)
        V.check(not REC, 'bind:body-ran-on-failure', det)
        V.cover('reject')
        return
    V.check(out[0] == 'ok', 'bind:python-binds-but-rejected', det)
    V.check(len(REC) == 1, 'bind:body-count', det)
    got = REC[0]
    V.check(set(got) == set(want), 'bind:names', det)
    for k in want:
        a, b = got[k], want[k]
        same = type(a) is type(b) and a == b
        V.check(same, 'bind:value:' + k, det)
    V.cover('accept')


@utype.parse
def s9(a: int, b: int = Param(5, no_input=True), c: int = 3, *, d: int = Param(6, no_input=True)):
    return record(a=a, b=b, c=c, d=d)


@ob('bind/no-input', marks=['accept', 'reject'], budget=(60, 200),
    bounds='def s9(a, b=Param(5, no_input=True), c=3, *, d=Param(6, no_input=True)): a by position or name, b and c by position, by name or '
           'omitted, d by name or omitted; values unbounded solver int | "5" | "x": the body runs once with the converted a and c and '
           'with the defaults of the no-input parameters whatever was passed for them')
def bind_no_input(V):
    how = {n: V.pick(n + '_how', ['pos', 'kw', 'omit'] if n != 'a' else ['pos', 'kw']) for n in ('a', 'b', 'c')}
    # positional arguments are a prefix
    if how['a'] != 'pos' and 'pos' in (how['b'], how['c']):
        return
    if how['b'] != 'pos' and how['c'] == 'pos':
        return
    args, kwargs, want, valid = [], {}, {'b': 5, 'c': 3, 'd': 6}, True
    for n in ('a', 'b', 'c'):
        if how[n] == 'omit':
            continue
        raw, conv, ok = sym_value(V, n)
        (args.append(raw) if how[n] == 'pos' else kwargs.__setitem__(n, raw))
        if n != 'b':
            want[n] = conv
            valid = valid and ok
    if V.bool('d_kw'):
        kwargs['d'] = sym_value(V, 'd')[0]
    del REC[:]
    try:
        s9(*args, **kwargs)
        out = ('ok',)
    except exc.ParseError as e:
        out = ('err', e)
    except Exception as e:  # noqa
        out = ('crash', e)
    det = lambda: 's9(*%r, **%r): expected body arguments %r ; decorated -> %s, body saw %r' % (
        args, kwargs, want, out[0] if out[0] == 'ok' else '%s %r' % (out[0], out[1]), REC)
    V.check(out[0] != 'crash', 'bind:crash:no-input', det)
    if not valid:
        V.check(out[0] == 'err' and not REC, 'bind:invalid-argument-accepted', det)
        V.cover('reject')
        return
    V.check(out[0] == 'ok' and len(REC) == 1, 'bind:python-binds-but-rejected', det)
    got = REC[0]
    V.check(all(type(got[k]) is type(want[k]) and got[k] == want[k] for k in want), 'bind:value:no-input', det)
    V.cover('accept')


for _s in SIGS:
    ob('bind/' + _s, marks=['accept', 'reject', 'python-refuses'], budget=(100, 400),
       bounds='signature %s; number of positionals 0..max (+2 for *args), a presence bit per keyword spelling (names, '
              'alias, alias_from), optional extra keyword where **kw exists; every value an unbounded solver int | "5" | "x"; '
              'the decorated body must see exactly the binding Python produces for the twin, converted' % _s,
       out='calls Python refuses (utype may be laxer)')((lambda s: lambda V: _bind(V, s))(_s))


# ---------------------------------------------------------------- methods through @parse on a class
@utype.parse
class Svc:
    def __init__(self, base: int = 0):
        self.base = base

    def inst(self, x: int, y: int = 1) -> List[int]:
        record(kind='inst', self_ok=isinstance(self, Svc), x=x, y=y)
        return (x, y)

    @classmethod
    def cm(cls, x: int, y: int = 1) -> List[int]:
        record(kind='cm', self_ok=cls is Svc, x=x, y=y)
        return (x, y)

    @staticmethod
    def sm(x: int, y: int = 1) -> List[int]:
        record(kind='sm', self_ok=True, x=x, y=y)
        return (x, y)


@ob('methods', marks=['accept', 'reject'], budget=(60, 200),
    bounds='@parse on a class: instance / class / static method (x: int, y: int = 1) -> List[int] (returning a tuple) called on the instance or the '
           'class, x by position or keyword, y absent / position / keyword; values unbounded solver int | "5" | "x"')
def methods(V):
    kind = V.pick('kind', ['inst', 'cm', 'sm'])
    via = V.pick('via', ['instance', 'class']) if kind != 'inst' else 'instance'
    target = Svc(0) if via == 'instance' else Svc
    f = getattr(target, kind)
    xr, xc, okx = sym_value(V, 'x')
    how_y = V.pick('y_how', ['absent', 'pos', 'kw'])
    args, kwargs = [], {}
    if V.bool('x_kw') and how_y != 'pos':
        kwargs['x'] = xr
    else:
        args.append(xr)
    yc, oky = 1, True
    if how_y != 'absent':
        yr, yc, oky = sym_value(V, 'y')
        if how_y == 'pos':
            args.append(yr)
        else:
            kwargs['y'] = yr
    del REC[:]
    try:
        r = ('ok', f(*args, **kwargs))
    except exc.ParseError as e:
        r = ('err', e)
    except Exception as e:  # noqa
        r = ('crash', e)
    det = lambda: 'Svc.%s via %s (*%r, **%r) -> %r ; body saw %r' % (kind, via, args, kwargs, r, REC)
    V.check(r[0] != 'crash', 'method:crash', det)
    if not (okx and oky):
        V.check(r[0] == 'err' and not REC, 'method:invalid-accepted', det)
        V.cover('reject')
        return
    V.check(r[0] == 'ok' and len(REC) == 1, 'method:rejected', det)
    got = REC[0]
    V.check(got['self_ok'] and got['x'] == xc and type(got['x']) is int and got['y'] == yc and type(got['y']) is int,
            'method:binding', det)
    V.check(type(r[1]) is list and r[1] == [xc, yc], 'method:result', det)
    V.cover('accept')


# ---------------------------------------------------------------- generators, coroutines
TWIN_SENT = []


def gen_body(n: int, bad_at: int = -1):
    total = 0
    for i in range(n):
        got = yield ('x' if i == bad_at else str(i * 10))
        TWIN_SENT.append(got)
        if got is not None:
            total += got
    return total


def _mk_gen(eager):
    @utype.parse(eager=eager)
    def g(n: int, bad_at: int = -1) -> Generator[int, int, str]:
        total = 0
        for i in range(n):
            got = yield ('x' if i == bad_at else str(i * 10))
            record(sent=got)
            if got is not None:
                total += got
        return total
    return g


GEN = {False: _mk_gen(False), True: _mk_gen(True)}


def drive_sync(V, gen, steps, sends):
    """returns the event stream [('yield', v) | ('return', v) | ('raise', type)]"""
    out = []
    try:
        item = next(gen)
        out.append(('yield', item))
        for s in sends[:steps]:
            item = gen.send(s) if s is not None else next(gen)
            out.append(('yield', item))
    except StopIteration as e:
        out.append(('return', e.value))
    except exc.ParseError as e:
        out.append(('raise', 'ParseError'))
    except Exception as e:  # noqa
        out.append(('raise', type(e).__name__))
    return out


@ob('generator', marks=['return', 'raise'], budget=(90, 300),
    bounds='@parse (lazy and eager) generator function -> Generator[int, int, str] yielding numeric strings, summing sent ints, '
           'returning the sum; n in 0..3 given as int or "2"; <= 3 next/send steps with sent values absent | solver int | "5" '
           '| "x"; optional non-numeric yield at a solver-chosen position; the event stream equals the twin\'s with every '
           'value converted to its declared type')
def generator(V):
    eager = V.bool('eager')
    n = V.pick('n', [0, 1, 2, 3])
    n_arg = V.pick('n_as', ['int', 'str'])
    bad_at = V.pick('bad_yield_at', [-1, 0, 1])
    steps = V.pick('steps', [0, 1, 2, 3])
    sends, tsends = [], []
    send_invalid_at = None
    for i in range(steps):
        k = V.pick('send%d' % i, ['none', 'int', 'num', 'bad'])
        if k == 'none':
            sends.append(None)
            tsends.append(None)
        elif k == 'int':
            x = V.int('sv%d' % i, -5, 5)
            sends.append(x)
            tsends.append(x)
        elif k == 'num':
            sends.append('5')
            tsends.append(5)
        else:
            sends.append('x')
            tsends.append(0)
            if send_invalid_at is None:
                send_invalid_at = i
    del REC[:]
    g = GEN[eager](n if n_arg == 'int' else str(n), bad_at)
    got = drive_sync(V, g, steps, sends)
    body_received = [r['sent'] for r in REC]
    del TWIN_SENT[:]
    twin = drive_sync(V, gen_body(n, bad_at), steps, tsends)
    twin_received = list(TWIN_SENT)
    # expected stream: twin's events converted; a bad yield or an invalid sent value ends the stream with ParseError
    want = []
    for idx, ev in enumerate(twin):
        if ev[0] == 'yield':
            if ev[1] == 'x':
                want.append(('raise', 'ParseError'))
                break
            want.append(('yield', int(ev[1])))
            if send_invalid_at is not None and idx == send_invalid_at and idx < len(twin) - 1 + 0:
                # the value sent after this yield is invalid: the send raises
                if idx < steps:
                    want.append(('raise', 'ParseError'))
                    break
        elif ev[0] == 'return':
            want.append(('return', str(ev[1]) if ev[1] is not None else None))
        else:
            want.append(ev)
    det = lambda: 'generator(eager=%r) n=%r bad_yield_at=%r sends=%r: decorated stream %r ; twin stream %r ; expected %r' % (
        eager, n, bad_at, sends, got, twin, want)
    V.check(got == want and all(type(a[1]) is type(b[1]) for a, b in zip(got, want)), 'generator:stream', det)
    if got and got[-1][0] != 'raise':
        V.check(body_received == twin_received and all(type(a) is type(b) for a, b in zip(body_received, twin_received)),
                'generator:sent-values', lambda: det() + ' ; body received %r, twin received %r' % (body_received, twin_received))
    V.cover('raise' if got and got[-1][0] == 'raise' else 'return' if got and got[-1][0] == 'return' else 'open')


def run_sync(aw):
    """step an awaitable that never really suspends"""
    it = aw.__await__()
    try:
        for _ in range(1000):
            next(it)
    except StopIteration as e:
        return e.value
    raise RuntimeError('awaitable suspended')


def _mk_coro(eager):
    @utype.parse(eager=eager)
    async def co(x: int, y: int = 1) -> List[int]:
        record(x=x, y=y)
        return (x, y)
    return co


CORO = {False: _mk_coro(False), True: _mk_coro(True)}


@ob('coroutine', marks=['accept', 'reject'], budget=(60, 200),
    bounds='@parse (lazy and eager) async def co(x: int, y: int = 1) -> List[int] (returning a tuple): x, y by position / keyword, values unbounded solver '
           'int | "5" | "x"; with eager parsing an invalid argument fails at the call, otherwise at the first step; the body '
           'never runs with an invalid argument; the awaited result is the converted return value')
def coroutine(V):
    eager = V.bool('eager')
    xr, xc, okx = sym_value(V, 'x')
    args, kwargs = [xr], {}
    yc, oky = 1, True
    how_y = V.pick('y_how', ['absent', 'pos', 'kw'])
    if how_y != 'absent':
        yr, yc, oky = sym_value(V, 'y')
        if how_y == 'pos':
            args.append(yr)
        else:
            kwargs['y'] = yr
    del REC[:]
    stage = 'call'
    try:
        aw = CORO[eager](*args, **kwargs)
        stage = 'await'
        r = ('ok', run_sync(aw))
    except exc.ParseError as e:
        r = ('err', stage)
    except Exception as e:  # noqa
        r = ('crash', e)
    det = lambda: 'co(eager=%r)(*%r, **%r) -> %r ; body saw %r' % (eager, args, kwargs, r, REC)
    V.check(r[0] != 'crash', 'coroutine:crash', det)
    if not (okx and oky):
        V.check(r[0] == 'err' and not REC, 'coroutine:invalid-accepted', det)
        if eager:
            V.check(r[1] == 'call', 'coroutine:eager-not-eager', det)
        V.cover('reject')
        return
    V.check(r[0] == 'ok' and len(REC) == 1 and REC[0] == {'x': xc, 'y': yc}, 'coroutine:binding', det)
    V.check(type(r[1]) is list and r[1] == [xc, yc], 'coroutine:result', det)
    V.cover('accept')


async def agen_body(n: int, bad_at: int = -1):
    total = 0
    for i in range(n):
        got = yield ('x' if i == bad_at else str(i * 10))
        if got is not None:
            total += got


def _mk_agen(eager):
    @utype.parse(eager=eager)
    async def ag(n: int, bad_at: int = -1) -> AsyncGenerator[int, int]:
        total = 0
        for i in range(n):
            got = yield ('x' if i == bad_at else str(i * 10))
            if got is not None:
                record(sent=got)
                total += got
    return ag


AGEN = {False: _mk_agen(False), True: _mk_agen(True)}


def drive_async(agen, steps, sends):
    out = []
    try:
        item = run_sync(agen.__anext__())
        out.append(('yield', item))
        for s in sends[:steps]:
            item = run_sync(agen.asend(s)) if s is not None else run_sync(agen.__anext__())
            out.append(('yield', item))
    except StopAsyncIteration:
        out.append(('return', None))
    except exc.ParseError:
        out.append(('raise', 'ParseError'))
    except Exception as e:  # noqa
        out.append(('raise', type(e).__name__))
    return out


@ob('async-generator', marks=['return'], budget=(90, 300),
    bounds='@parse (lazy and eager) async generator -> AsyncGenerator[int, int]; n in 0..3, <= 3 anext/asend steps with sent '
           'values absent | solver int -5..5 | "5"; the stream of yielded values equals the twin\'s, converted, and the '
           'body receives every sent value converted')
def async_generator(V):
    eager = V.bool('eager')
    n = V.pick('n', [0, 1, 2, 3])
    steps = V.pick('steps', [0, 1, 2, 3])
    sends, tsends = [], []
    for i in range(steps):
        k = V.pick('send%d' % i, ['none', 'int', 'num'])
        if k == 'none':
            sends.append(None)
            tsends.append(None)
        elif k == 'int':
            x = V.int('sv%d' % i, -5, 5)
            sends.append(x)
            tsends.append(x)
        else:
            sends.append('5')
            tsends.append(5)
    del REC[:]
    got = drive_async(AGEN[eager](n), steps, sends)
    seen = [r['sent'] for r in REC]
    twin = drive_async(agen_body(n), steps, tsends)
    want = [(k, int(v)) if k == 'yield' else (k, v) for k, v in twin]
    det = lambda: 'async generator(eager=%r) n=%r sends=%r: decorated stream %r (body received %r) ; twin stream %r' % (
        eager, n, sends, got, seen, twin)
    V.check(got == want, 'async-generator:stream', det)
    n_delivered = sum(1 for i, s in enumerate(tsends) if s is not None and i < len(twin) - 1)
    V.check(seen == [s for i, s in enumerate(tsends) if s is not None and i < len(twin) - 1][:len(seen)] and len(seen) == n_delivered,
            'async-generator:sent-values', det)
    V.cover('return' if got and got[-1][0] == 'return' else 'open')


# ---------------------------------------------------------------- return values incl. None
def _mk_ret(ann):
    @utype.parse
    def r(v) -> ann:
        return v
    return r


RET = {'None': (type(None), _mk_ret(None)), 'int': (int, _mk_ret(int)), 'List[int]': (List[int], _mk_ret(List[int])), 'str': (str, _mk_ret(str)),
       'dict': (dict, _mk_ret(dict)), 'Optional[int]': (__import__('typing').Optional[int], _mk_ret(__import__('typing').Optional[int]))}


@ob('return-conversion', marks=['accept', 'reject'], budget=(40, 150),
    bounds='@parse def r(v) -> T returning its argument, T in {None, int, List[int], str, dict, Optional[int]}; v = None | solver int | "5" | '
           '"x" | [1, "2"] | {}: the caller gets exactly what converting v to T gives (None is converted like any other value), '
           'or a ParseError when that conversion fails')
def return_conversion(V):
    name = V.pick('T', sorted(RET))
    T, fn = RET[name]
    k = V.pick('vk', ['none', 'int', 'other'])
    v = None if k == 'none' else V.int('v', -3, 3) if k == 'int' else V.pick('vo', ['5', 'x', [1, '2'], {}, 2.5])
    from utype.utils.transform import type_transform
    try:
        want = ('ok', type_transform(v, utype.Rule.parse_annotation(T)))
    except Exception:  # noqa
        want = ('err',)
    try:
        got = ('ok', fn(v))
    except exc.ParseError:
        got = ('err',)
    except Exception as e:  # noqa
        got = ('crash', type(e).__name__)
    V.check(got[0] == want[0] and (got[0] != 'ok' or (got[1] == want[1] and type(got[1]) is type(want[1]))), 'return:conversion',
            lambda: 'r(%r) -> %s: returned %r, converting the value gives %r' % (v, name, got, want))
    V.cover('accept' if got[0] == 'ok' else 'reject')


# ---------------------------------------------------------------- every spelling of a generator's return annotation
from typing import AsyncIterable, AsyncIterator, Iterable, Iterator  # noqa: E402


def _mk_gen(ann, eager):
    @utype.parse(eager=eager)
    def g(items) -> ann:
        for it in items:
            yield it
    return g


def _mk_agen(ann, eager):
    @utype.parse(eager=eager)
    async def ag(items) -> ann:
        for it in items:
            yield it
    return ag


GEN_ANN = {'Iterable[int]': Iterable[int], 'Iterator[int]': Iterator[int], 'Generator[int,None,None]': Generator[int, None, None]}
AGEN_ANN = {'AsyncIterable[int]': AsyncIterable[int], 'AsyncIterator[int]': AsyncIterator[int], 'AsyncGenerator[int,None]': AsyncGenerator[int, None]}
GENS = {(k, e): _mk_gen(v, e) for k, v in GEN_ANN.items() for e in (False, True)}
AGENS = {(k, e): _mk_agen(v, e) for k, v in AGEN_ANN.items() for e in (False, True)}


@ob('generator-annotations', marks=['accept', 'reject'], budget=(60, 200),
    bounds='generator functions annotated Iterable[int] / Iterator[int] / Generator[int, None, None] and async ones annotated '
           'AsyncIterable / AsyncIterator / AsyncGenerator, lazy and eager; they yield <= 2 items picked from "5" | 3 | "x": every yielded '
           'value reaches the caller converted to int, an unconvertible one raises ParseError at that position')
def generator_annotations(V):
    is_async = V.bool('async')
    name = V.pick('annotation', sorted(AGEN_ANN if is_async else GEN_ANN))
    eager = V.bool('eager')
    items = [V.pick('i%d' % i, ['5', 3, 'x']) for i in range(V.pick('n', [1, 2]))]
    want = []
    for it in items:
        if it == 'x':
            want.append('error')
            break
        want.append(5 if it == '5' else it)
    got = []
    try:
        if is_async:
            ag = AGENS[(name, eager)](items)
            while True:
                co = ag.__anext__()
                try:
                    co.send(None)
                except StopIteration as e:
                    got.append(e.value)
                except StopAsyncIteration:
                    break
                else:
                    raise RuntimeError('async generator suspended')
        else:
            for v in GENS[(name, eager)](items):
                got.append(v)
    except exc.ParseError:
        got.append('error')
    V.check(got == want and all(type(a) is type(b) for a, b in zip(got, want)), 'generator:annotation-ignored',
            lambda: '%s%s generator annotated %s yielding %r: caller received %r, expected %r' % ('eager ' if eager else '', 'async' if is_async else 'sync', name, items, got, want))
    V.cover('reject' if 'error' in want else 'accept')
