"""C15 -- types built from a JSON Schema never crash nor emit what the schema forbids"""
import json

from utype import Options, exc
from utype.specs.json_schema.parser import JsonSchemaParser
from utype.utils.encode import JSONEncoder
from utype.utils.transform import type_transform
from vt import minijs
from vt.ob import ob

PROP = 'C15'
ASSUMPTIONS = [
    'the schema is the symbolic program: keyword presence bits, numeric keyword values (solver integers), type / format / pattern / '
    'enum picks, property names from a hostile vocabulary, one level of nesting (two in the thorough tier)',
    "building may be refused with the library's ConfigError only when the constraint set is unsatisfiable; satisfiability is decided "
    'by the harness by searching a small instance domain with the mini validator (a schema for which no instance is found is treated '
    'as unsatisfiable, i.e. a refusal is tolerated)',
    'strict conversion options = Options(no_explicit_cast=True, no_data_loss=True) passed to type_transform; object types carry their '
    'own class options (built by the parser from the schema) and are called through __from__',
    'returned values are JSON-encoded with the library encoder before validation; format is an annotation',
]

STRICT = dict(no_explicit_cast=True, no_data_loss=True)


def encode(v):
    return json.loads(json.dumps(v, cls=JSONEncoder))


def build(V, s):
    """('ok', T) | ('refused', ConfigError) ; any other exception is a violation"""
    try:
        return ('ok', JsonSchemaParser(s)())
    except exc.ConfigError as e:
        return ('refused', e)
    except Exception as e:  # noqa
        V.fail('build:crash:' + type(e).__name__, 'JsonSchemaParser(%r)() raised %s: %s' % (s, type(e).__name__, str(e)[:200]))


def refusal_label(e):
    m = str(e)
    for key, label in (('must be a int > 0', 'zero-length-limit'), ('cannot assign together', 'inclusive-and-exclusive-bound'),
                       ('cannot apply to', 'constraint-on-unsupported-origin'), ('must > gt/ge', 'equal-or-crossed-bounds'), ('not exists', 'empty-property-name'), ('must equal to lt/le type', 'mixed-bound-types'),
                       ('conflict with', 'name-conflict')):
        if key in m:
            return label
    return 'other'


CONSTRAINT_KEYS = ('minimum', 'maximum', 'exclusiveMinimum', 'exclusiveMaximum', 'multipleOf', 'minLength', 'maxLength', 'pattern',
                   'minItems', 'maxItems', 'uniqueItems')


def untyped_constraints(s):
    """some (sub-)schema carries constraint keywords but no type / enum / const"""
    if isinstance(s, dict):
        if any(k in s for k in CONSTRAINT_KEYS) and not any(k in s for k in ('type', 'enum', 'const', 'anyOf', 'oneOf', 'allOf')):
            return True
        return any(untyped_constraints(v) for v in s.values())
    if isinstance(s, list):
        return any(untyped_constraints(v) for v in s)
    return False


def check_value(V, s, T, x, tag, strict=True):
    try:
        if isinstance(T, type) and hasattr(T, '__from__') and isinstance(x, dict):
            y = T.__from__(x)
        else:
            y = type_transform(x, T, Options(**STRICT) if strict else Options())
    except exc.ParseError:
        V.cover('reject')
        return
    except Exception:  # noqa
        # plain types (datetime, uuid, ...) re-raise their converter's own error, whatever its class: a rejection here
        # (which exceptions may leave a parse is C04's subject, not C15's)
        V.cover('reject')
        return
    if V.symbolic:
        # values built under tracing may be CrossHair's stand-ins (timedelta: '{:02d}'.format fails on them); the JSON
        # encoder is C code that realises its input anyway
        from crosshair.core import deep_realize
        y = deep_realize(y)
    j = encode(y)
    ok = minijs.valid(s, j)
    if not V.symbolic:
        lib = minijs.library_valid(s, j)
        if lib != ok:
            raise RuntimeError('mini validator (%r) and jsonschema (%r) disagree on %r / %r' % (ok, lib, s, j))
    if untyped_constraints(s):
        tag += ':untyped-constraints'
    V.check(ok, 'emit:forbidden-value:' + tag, lambda: 'schema %r: input %r -> %r (JSON %r) does not validate' % (s, x, y, j))
    V.cover('accept')


# ------------------------------------------------------------------ numeric schemas (closing)
def numeric_schema(V, tag=''):
    t = V.pick(tag + 'type', ['integer', 'number'])
    s = {'type': t}
    for kw in ('minimum', 'maximum', 'exclusiveMinimum', 'exclusiveMaximum'):
        if V.bool(tag + 'has_' + kw):
            # solver integers for integer schemas; picked values for "number" (float arithmetic on symbolic ints is slow)
            s[kw] = V.int(tag + kw, -3, 3) if t == 'integer' else V.pick(tag + kw + '_n', [-1, 0, 2, 0.5])
    if V.bool(tag + 'has_multipleOf'):
        s['multipleOf'] = V.pick(tag + 'multipleOf', [1, 2, 3])
    return s


def satisfiable(s, domain):
    return any(minijs.valid(s, x) for x in domain)


NUM_DOMAIN = list(range(-8, 9)) + [x + 0.5 for x in range(-8, 8)]


@ob('numeric', marks=['accept', 'reject', 'refused'], budget=(100, 400), per_path=(5, 10),
    bounds='{"type": integer|number} with any subset of minimum / maximum / exclusiveMinimum / exclusiveMaximum (solver ints -3..3) '
           'and multipleOf in {1,2,3}; instance = solver int -6..6 | 0.5 | 2.5 | "5" | True | None; building is refused only for '
           'unsatisfiable keyword sets; an accepted instance yields a value that validates')
def numeric(V):
    s = numeric_schema(V)
    b = build(V, s)
    if b[0] == 'refused':
        concrete = {k: (V.concrete(k, v) if not isinstance(v, str) else v) for k, v in s.items()}
        V.check(not satisfiable(concrete, NUM_DOMAIN), 'build:refused-satisfiable-schema:' + refusal_label(b[1]),
                lambda: 'JsonSchemaParser(%r)() refused with %r although e.g. %r validates' % (
                    concrete, str(b[1])[:120], [x for x in NUM_DOMAIN if minijs.valid(concrete, x)][:3]))
        V.cover('refused')
        return
    k = V.pick('xk', ['int', 'other'])
    if k == 'int':
        x = V.int('x', -6, 6) if s['type'] == 'integer' else V.pick('xi', [-2, -1, 0, 1, 2, 3, 6])
    else:
        x = V.pick('xo', [0.5, 2.5, '5', True, None, 3.0])
    check_value(V, s, b[1], x, 'numeric')


# ------------------------------------------------------------------ strings, enums, consts
PATTERNS = [None, '[a-z]+', '^a', '\\d+$']
FORMATS = [None, 'date', 'date-time', 'time', 'uuid', 'duration', 'binary', 'ipv4', 'unknown-format']
STRINGS = ['', 'a', 'ab', 'abc', 'abcd', '12', 'a1', '2022-03-04', '2022-03-04T10:11:12', '10:11:12', 'P1D',
           '12345678-1234-5678-1234-567812345678', '1.2.3.4', 5, None, True, ['a']]


@ob('string', marks=['accept', 'reject'], budget=(100, 400),
    bounds='{"type": "string"} with minLength / maxLength (solver ints 0..4), pattern from 3, format from 8 (incl. an unknown one); '
           'instance picked from 17 values (strings of several shapes, non-strings)')
def string(V):
    s = {'type': 'string'}
    if V.bool('has_minLength'):
        s['minLength'] = V.int('minLength', 0, 4)
    if V.bool('has_maxLength'):
        s['maxLength'] = V.int('maxLength', 0, 4)
    p = V.pick('pattern', PATTERNS)
    if p:
        s['pattern'] = p
    f = V.pick('format', FORMATS)
    if f:
        s['format'] = f
    b = build(V, s)
    if b[0] == 'refused':
        concrete = {k: (V.concrete(k, v) if isinstance(v, int) else v) for k, v in s.items()}
        dom = [x for x in STRINGS if isinstance(x, str)] + ['aaaa', 'zzz9']
        V.check(not satisfiable(concrete, dom), 'build:refused-satisfiable-schema:' + refusal_label(b[1]),
                lambda: 'JsonSchemaParser(%r)() refused with %r' % (concrete, str(b[1])[:120]))
        V.cover('reject')
        return
    x = V.pick('x', STRINGS)
    check_value(V, s, b[1], x, 'string')


ENUMS = [[1, 2, 3], ['a', 'b'], [1, 'a', None], [True], [[1], [2]], [1.5, 2], [{'a': 1}]]
CONSTS = [0, 1, 'a', None, True, 1.0, [1], {'a': 1}]
ANYV = [0, 1, 2, 'a', 'b', None, True, False, 1.0, 1.5, [1], [2], {'a': 1}, '1']


@ob('enum-const', marks=['accept', 'reject'], budget=(60, 200),
    bounds='{"enum": E} for 7 value lists (homogeneous, mixed, with null / arrays / objects), {"const": c} for 8 constants, with and '
           'without an explicit "type"; instance picked from 14 JSON values')
def enum_const(V):
    which = V.pick('which', ['enum', 'const'])
    s = {}
    if which == 'enum':
        s['enum'] = V.pick('enum', ENUMS)
    else:
        s['const'] = V.pick('const', CONSTS)
    t = V.pick('type', [None, 'integer', 'string', 'number', 'boolean', 'null', 'array', 'object'])
    if t:
        s['type'] = t
    b = build(V, s)
    if b[0] == 'refused':
        V.check(not satisfiable(s, ANYV), 'build:refused-satisfiable-schema:' + refusal_label(b[1]), lambda: 'JsonSchemaParser(%r)() refused: %r' % (s, str(b[1])[:120]))
        V.cover('reject')
        return
    x = V.pick('x', ANYV)
    check_value(V, s, b[1], x, 'enum-const')


# ------------------------------------------------------------------ arrays
SUB = [{}, {'type': 'integer'}, {'type': 'integer', 'minimum': 0}, {'type': 'string'}, {'type': 'string', 'maxLength': 1},
       {'type': 'null'}, {'type': 'boolean'}, {'enum': [1, 'a']}, {'type': 'array', 'items': {'type': 'integer'}},
       {'type': 'object', 'properties': {'a': {'type': 'integer'}}, 'required': ['a']}]
SUBC = [{'anyOf': [{'type': 'integer', 'minimum': 3}, {'type': 'null'}]},
        {'oneOf': [{'type': 'string', 'maxLength': 1}, {'type': 'integer', 'minimum': 0}]},
        {'allOf': [{'type': 'integer'}, {'minimum': 2}]}, {'type': 'array', 'items': {'anyOf': [{'type': 'integer', 'maximum': 1}, {'type': 'null'}]}}]
ELEMS = [0, 1, -1, 'a', 'ab', None, True, 1.5, [1], ['a'], {'a': 1}, {'a': 'x'}, {}]


@ob('array', marks=['accept', 'reject'], budget=(100, 400), exhaustive=False,
    bounds='{"type": "array"} with items / prefixItems (+ items false or a schema) from 10 sub-schemas, minItems / maxItems (solver '
           'ints 0..3), uniqueItems; instance = list of <= 3 elements from 13 JSON values')
def array(V):
    s = {'type': 'array'}
    shape = V.pick('shape', ['plain', 'items', 'prefix', 'prefix+items', 'prefix+closed'])
    if shape == 'items':
        s['items'] = V.pick('items', SUB)
    elif shape.startswith('prefix'):
        s['prefixItems'] = [V.pick('p0', SUB[1:6]), V.pick('p1', SUB[1:6])][:V.pick('n_prefix', [1, 2])]
        if shape == 'prefix+items':
            s['items'] = V.pick('items', SUB[1:5])
        elif shape == 'prefix+closed':
            s['items'] = False
    if V.bool('has_minItems'):
        s['minItems'] = V.int('minItems', 0, 3)
    if V.bool('has_maxItems'):
        s['maxItems'] = V.int('maxItems', 0, 3)
    if V.bool('uniqueItems'):
        s['uniqueItems'] = True
    b = build(V, s)
    if b[0] == 'refused':
        concrete = {k: (V.concrete(k, v) if isinstance(v, int) and not isinstance(v, bool) else v) for k, v in s.items()}
        dom = [[], [0], [0, 1], ['a'], [0, 'a'], [0, 'a', 1], [0, 1, 2], [None], [[1]], [{'a': 1}], [0, 'a', 'b', 1]]
        V.check(not satisfiable(concrete, dom), 'build:refused-satisfiable-schema:' + refusal_label(b[1]),
                lambda: 'JsonSchemaParser(%r)() refused with %r' % (concrete, str(b[1])[:120]))
        V.cover('reject')
        return
    n = V.pick('n', [0, 1, 2, 3])
    x = [V.pick('e%d' % i, ELEMS) for i in range(n)]
    check_value(V, s, b[1], x, 'array')


# ------------------------------------------------------------------ objects
NAMES = ['a', 'a-b', '1x', 'class', 'items', 'keys', 'update', 'a b', '', '__init__', 'get', 'A', 'self', 'def',
         'a_b', 'items_1', 'class_value', 'field_1x', 'a_b_1']


@ob('object', marks=['accept', 'reject'], budget=(120, 400), exhaustive=False,
    bounds='{"type": "object"} with 1-2 properties whose names come from %r (non-identifiers, keywords, mapping methods, empty), '
           'sub-schemas from 5 plain and 4 compositions with constrained branches, required bits, additionalProperties in {absent, true, false, {"type": "integer"}}, dependentRequired, '
           'min/maxProperties (solver ints 0..3); instance = dict over the property names + an unknown key with values from 9' % (NAMES,))
def object_(V):
    n = V.pick('n_props', [1, 2])
    names = []
    for i in range(n):
        nm = V.pick('name%d' % i, NAMES)
        if nm in names:
            return
        names.append(nm)
    s = {'type': 'object', 'properties': {}}
    for i, nm in enumerate(names):
        s['properties'][nm] = V.pick('sub%d' % i, SUB[1:6] + SUBC)
    req = [nm for i, nm in enumerate(names) if V.bool('req%d' % i)]
    if req:
        s['required'] = req
    ap = V.pick('additionalProperties', ['absent', True, False, {'type': 'integer'}])
    if ap != 'absent':
        s['additionalProperties'] = ap
    if n == 2 and V.bool('dependentRequired'):
        s['dependentRequired'] = {names[0]: [names[1]]}
    if V.bool('has_minProperties'):
        s['minProperties'] = V.int('minProperties', 0, 3)
    if V.bool('has_maxProperties'):
        s['maxProperties'] = V.int('maxProperties', 0, 3)
    b = build(V, s)
    if b[0] == 'refused':
        concrete = {k: (V.concrete(k, v) if isinstance(v, int) and not isinstance(v, bool) else v) for k, v in s.items()}
        vals = [0, 'a', None, True]
        dom = [{}] + [{names[0]: v} for v in vals] + ([{names[0]: v, names[1]: w} for v in vals for w in vals] if n == 2 else []) + \
              [{names[0]: v, 'zz': 1} for v in vals]
        V.check(not satisfiable(concrete, dom), 'build:refused-satisfiable-schema:' + refusal_label(b[1]),
                lambda: 'JsonSchemaParser(%r)() refused with %r' % (concrete, str(b[1])[:120]))
        V.cover('reject')
        return
    T = b[1]
    x = {}
    for i, nm in enumerate(names):
        if V.bool('x_has%d' % i):
            x[nm] = V.pick('x_v%d' % i, [0, 1, -1, 'a', 'ab', None, True, '5', [1], 2, 3, [2, None]])
    if V.bool('x_unknown'):
        x['zz'] = V.pick('x_zz', [1, 'q', None])
    check_value(V, s, T, x, 'object:empty-name' if '' in names else 'object:unknown-key-dropped' if ('zz' in x and ap == 'absent') else 'object')


DEP_NAMES = ['a', 'a-b', 'class', 'items', '1x', 'a_b', 'A', 'get']


@ob('object/dependent-required', marks=['accept', 'reject'], budget=(100, 300),
    bounds='{"type": "object"} with two integer properties whose names come from %r, dependentRequired {first: [second]} '
           '(optionally also the reverse), optional required bit; instance = each property present (0 / "x") or absent: a returned '
           'value validates against the source (a key with a missing dependency is never returned)' % (DEP_NAMES,))
def object_dependent_required(V):
    a = V.pick('name0', DEP_NAMES)
    b_ = V.pick('name1', DEP_NAMES)
    if a == b_:
        return
    s = {'type': 'object', 'properties': {a: {'type': 'integer'}, b_: {'type': 'integer'}}, 'dependentRequired': {a: [b_]}}
    if V.bool('both-ways'):
        s['dependentRequired'][b_] = [a]
    if V.bool('required'):
        s['required'] = [a]
    b = build(V, s)
    if b[0] == 'refused':
        dom = [{}, {a: 0}, {b_: 0}, {a: 0, b_: 0}]
        V.check(not satisfiable(s, dom), 'build:refused-satisfiable-schema:' + refusal_label(b[1]),
                lambda: 'JsonSchemaParser(%r)() refused with %r' % (s, str(b[1])[:120]))
        V.cover('reject')
        return
    x = {}
    if V.bool('x_has0'):
        x[a] = 0
    if V.bool('x_has1'):
        x[b_] = V.pick('x_v1', [0, 'x'])
    check_value(V, s, b[1], x, 'object:dependent-required')


# ------------------------------------------------------------------ compositions
def _composition(V, op):
    a, b_ = V.pick('A', SUB), V.pick('B', SUB)
    s = {op: [a, b_]}
    tag = op
    if V.thorough and V.bool('nested'):
        outer = V.pick('op2', ['anyOf', 'oneOf', 'allOf'])
        s = {outer: [s, V.pick('C', SUB)]}
        tag = '%s(%s)' % (outer, op)        # nested compositions carry both operators in the signature, outermost first
    b = build(V, s)
    if b[0] == 'refused':
        V.check(not satisfiable(s, ANYV + [[1, 2], ['a'], {'a': 'x'}, {}]), 'build:refused-satisfiable-schema:' + refusal_label(b[1]),
                lambda: 'JsonSchemaParser(%r)() refused with %r' % (s, str(b[1])[:120]))
        V.cover('reject')
        return
    x = V.pick('x', ANYV + [[1, 2], ['a'], {'a': 'x'}, {}, 'ab', -1])
    check_value(V, s, b[1], x, 'composition:' + tag)


for _op in ('anyOf', 'oneOf', 'allOf'):
    ob('composition/' + _op, marks=['accept', 'reject'], budget=(100, 400), exhaustive=(True, False),
       bounds='%s of two sub-schemas from 10 (thorough: nested once more inside anyOf / oneOf / allOf with a third); instance from 14 '
              'JSON values + small lists / dicts' % _op)((lambda o: lambda V: _composition(V, o))(_op))
