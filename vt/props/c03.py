"""C03 -- parsing is idempotent; lax constraints converge in one step"""
from decimal import Decimal
from enum import Enum

from utype import Lax, Options, Rule, exc
from utype.utils.transform import type_transform
from vt import typedesc as td
from vt.conv import GROUPS, I, S, parse, real, small, sym_flags, tiny
from vt.ob import ob
from vt.values import value

PROP = 'C03'
ASSUMPTIONS = [
    "'equal value' is == (True equals 1; NaN equals NaN), element-wise for containers of the same type; data-class instances "
    'are compared with their own ==',
    'lax constraints: the output is a fixed point of the same type, and on exact domains (int, Decimal, str, sequences) it is '
    'accepted unchanged by the strict form of the same constraint',
]


NUMERIC = (int, float, Decimal)


def same(a, b):
    """the statement says 'an equal value': == (so True equals 1), NaN equal to NaN, containers element-wise"""
    if isinstance(a, NUMERIC) and isinstance(b, NUMERIC):
        try:
            return bool(a == b) or (a != a and b != b)
        except ArithmeticError:      # a signalling NaN raises on comparison
            return type(a) is type(b) and str(a) == str(b)
    if type(a) is not type(b):
        return False
    if isinstance(a, (list, tuple)):
        return len(a) == len(b) and all(same(x, y) for x, y in zip(a, b))
    if type(a) is dict:
        return len(a) == len(b) and all(k in b and same(a[k], b[k]) for k in a)
    return a == b


def reparse(V, T, o, y, tag, det):
    z = parse(T, y, o)
    V.check(z[0] == 'ok', 'idempotent:reparse-rejected:' + tag, lambda: det() + ' ; re-parse failed')
    V.check(same(z[1], y), 'idempotent:reparse-changed:' + tag, lambda: det() + ' ; re-parse -> %r (%s)' % (z[1], type(z[1]).__name__))


def _idem(V, group):
    with V.notrace():
        for d in GROUPS[group]:
            real(d)
    d = V.pick('T', GROUPS[group])
    T = real(d)
    o = sym_flags(V)
    x = value(V, sym_int=group in ('scalar', 'constrained', 'generic', 'nested', 'dataclass'))
    r = parse(T, x, o)
    if r[0] != 'ok':
        V.cover('reject')
        return
    reparse(V, T, o, r[1], td.show(d).split('{')[0].split('[')[0],
            lambda: '%s options=%r input=%r -> %r (%s)' % (td.show(d), o, x, r[1], type(r[1]).__name__))
    if d[0] == 'dc':
        # a data-class instance fed back through the class itself (its own keys are its input)
        y = r[1]
        for label, again in (('__from__', lambda: T.__from__(y)), ('positional', lambda: T(y)), ('keywords', lambda: T(**y))):
            try:
                z = again()
            except Exception as e:  # noqa
                V.fail('idempotent:reparse-rejected:dataclass-' + label, '%s: %s(%r) raised %s: %s' % (td.show(d), label, y, type(e).__name__, str(e)[:120]))
            V.check(z == y and type(z) is type(y), 'idempotent:reparse-changed:dataclass-' + label, lambda: '%s: %r -> %r' % (td.show(d), y, z))
    V.cover('accept')


for _g in GROUPS:
    ob('idempotent/' + _g, marks=['accept', 'reject'], budget=(50, 600), per_path=(10, 20), exhaustive=False,
       bounds='T in {%s}; inputs and flags as in C01/conform/%s; y = T(x) accepted => T(y) accepted and equal (same type)' % (
           ', '.join(td.show(d) for d in GROUPS[_g]), _g),
       out='tree not expected to close (solver-driven exploration, every path replayed concretely)')(
        (lambda g: lambda V: _idem(V, g))(_g))


def _sym_container(V, kind):
    a = V.int('a', -3, 3)
    e = ('rule', I, {'ge': a})
    d = {'list': ('list', e), 'set': ('set', e), 'vtuple': ('vtuple', e), 'tuple': ('tuple', [e, S]), 'dict': ('dict', e, e),
         'optlist': ('list', ('opt', e)), 'unionlist': ('list', ('union', e, S)), 'union-int-list': ('union', e, ('list', e)),
         'union-pos-str': ('union', ('rule', I, {'gt': a}), S)}[kind]
    T = td.make(d)
    o = sym_flags(V, few=kind in ('optlist', 'unionlist'))
    n = V.pick('n', [0, 1, 2, 3] if V.thorough else [0, 1] if kind in ('dict', 'union-int-list', 'union-pos-str') else [0, 1, 2])
    shape = V.pick('shape', ['list', 'tuple', 'set', 'scalar'] if kind.startswith('union-') else ['list', 'tuple', 'set'])
    hashed = shape == 'set' or kind in ('dict', 'set')
    if shape == 'scalar':
        x = tiny(V, 'x', False)
    else:
        xs = [tiny(V, 'e%d' % i, hashed) for i in range(n)]
        if kind == 'dict':
            x = {}
            for i, v in enumerate(xs):
                try:
                    x[v] = xs[(i + 1) % len(xs)]
                except TypeError:
                    x[i] = v
        else:
            try:
                x = {'list': list, 'tuple': tuple, 'set': set}[shape](xs)
            except TypeError:
                x = xs
    r = parse(T, x, o)
    if r[0] == 'ok':
        reparse(V, T, o, r[1], 'sym-' + kind, lambda: '%s options=%r input=%r -> %r' % (td.show(d), o, x, r[1]))
        V.cover('accept')
    else:
        V.cover('reject')


for _k in ('list', 'set', 'vtuple', 'tuple', 'dict', 'optlist', 'unionlist', 'union-int-list', 'union-pos-str'):
    ob('sym/' + _k, marks=['accept'] if _k == 'unionlist' else ['accept', 'reject'], exhaustive=(True, False), budget=(160 if ('list' in _k and _k != 'list') or _k == 'set' else 100, 500),
       bounds='%s over Rule[int](ge=a), a in -3..3 symbolic; input list / tuple / set (dict for dict; also a scalar for the '
              'staged unions) of n <= 2 (1 for dict and the staged unions; 3 thorough) elements: solver int | bool | None | "5" | 1.5 | "x"; flags solver-picked; '
              'staged union resolution: the stage that accepted x must map its own output to itself' % _k,
       out='larger containers')((lambda k: lambda V: _sym_container(V, k))(_k))


# ------------------------------------------------------------------ lax constraints
def lax_pair(origin, name, v, *args):
    T = Rule.annotate(origin, *args, constraints={name: Lax(v)})
    Sx = Rule.annotate(origin, *args, constraints={name: v})
    return T, Sx


def run(T, x):
    try:
        return ('ok', T(x))
    except exc.ParseError:
        return ('err',)


def lax_check(V, T, Sx, x, tag, exact=True):
    r = run(T, x)
    if r[0] != 'ok':
        V.cover('reject')
        return None
    y = r[1]
    det = lambda: '%s: %r -> %r' % (tag, x, y)
    r2 = run(T, y)
    V.check(r2[0] == 'ok' and same(r2[1], y), 'lax:not-a-fixed-point:' + tag, lambda: det() + ' -> %r' % (r2[1:],))
    if exact:
        r3 = run(Sx, y)
        V.check(r3[0] == 'ok' and same(r3[1], y), 'lax:strict-form-rejects-output:' + tag, lambda: det() + ' ; strict -> %r' % (r3[1:],))
    V.cover('accept')
    return y


@ob('lax/bounds', marks=['accept'], budget=(40, 150),
    bounds='Rule[int](ge=Lax(a)) / (le=Lax(a)) / both (a <= b), a, b, x unbounded solver ints: output is a fixed point, '
           'satisfies the strict constraint, equals x when x already satisfies it and the bound otherwise')
def lax_bounds(V):
    k = V.pick('k', ['ge', 'le', 'both'])
    a, x = V.int('a'), V.int('x')
    if k == 'both':
        b = V.int('b')
        if not a <= b:
            return
        try:
            T = Rule.annotate(int, constraints={'ge': Lax(a), 'le': Lax(b)})
            Sx = Rule.annotate(int, constraints={'ge': a, 'le': b})
        except exc.ConfigError:
            return
        y = lax_check(V, T, Sx, x, 'ge+le')
        if y is not None:
            V.check(y == (a if x < a else b if x > b else x), 'lax:value:ge+le', lambda: 'a=%r b=%r x=%r -> %r' % (a, b, x, y))
        return
    T, Sx = lax_pair(int, k, a)
    y = lax_check(V, T, Sx, x, k)
    if y is not None:
        want = (a if x < a else x) if k == 'ge' else (a if x > a else x)
        V.check(y == want, 'lax:value:' + k, lambda: 'a=%r x=%r -> %r' % (a, x, y))


@ob('lax/length', marks=['accept', 'reject'], budget=(60, 200),
    bounds='lax length / max_length n in 1..4 (solver int) on str (symbolic, <= 5 chars over a..c), list and tuple of <= 5 '
           'solver ints: output is a prefix of the input, a fixed point, and passes the strict constraint')
def lax_length(V):
    k = V.pick('k', ['length', 'max_length'])
    n = V.int('n', 1, 4)
    kind = V.pick('kind', ['str', 'list', 'tuple'])
    origin = {'str': str, 'list': list, 'tuple': tuple}[kind]
    m = 1
    while m < 4 and not (n == m):
        m += 1
    T, Sx = lax_pair(origin, k, m)
    if kind == 'str':
        x = V.str('x', 5, 97, 99)
    else:
        ln = V.pick('len', [0, 1, 2, 3, 4, 5])
        x = origin([V.int('x%d' % i, 0, 9) for i in range(ln)])
    y = lax_check(V, T, Sx, x, '%s:%s' % (k, kind))
    if y is not None:
        V.check(same(y, x[:len(y)]) and (len(y) == m or (k == 'max_length' and len(y) == len(x) and len(x) < m)),
                'lax:value:' + k, lambda: 'n=%r %r -> %r' % (m, x, y))


@ob('lax/multiple_of', marks=['accept'], budget=(40, 150),
    bounds='Rule[int](multiple_of=Lax(d)), d picked from +-{1,2,3,4,7}, x unbounded solver int: output is a multiple, a '
           'fixed point, and the nearest multiple not above x (for d > 0)')
def lax_multiple(V):
    d = V.pick('d', [1, 2, 3, 4, 7, -2, -3])
    x = V.int('x')
    T, Sx = lax_pair(int, 'multiple_of', d)
    y = lax_check(V, T, Sx, x, 'multiple_of')
    if y is not None:
        V.check(y % d == 0, 'lax:value:multiple_of', lambda: 'd=%r x=%r -> %r' % (d, x, y))
        if d > 0:
            V.check(y <= x and x - y < d, 'lax:value:multiple_of-nearest', lambda: 'd=%r x=%r -> %r' % (d, x, y))


class Col(Enum):
    A = 1
    B = 2


@ob('lax/const-enum', marks=['accept'], budget=(40, 150),
    bounds='lax const (1, "a") and lax enum ([1, 2, 3], ["a", "b"], an Enum class) on solver ints / picked strings')
def lax_const_enum(V):
    k = V.pick('k', ['const-int', 'const-str', 'enum-int', 'enum-str', 'enum-class'])
    if k == 'const-int':
        T, Sx = lax_pair(int, 'const', 1)
        x = V.int('x')
    elif k == 'const-str':
        T, Sx = lax_pair(str, 'const', 'a')
        x = V.pick('s', ['a', 'b', '', 'A'])
    elif k == 'enum-int':
        T, Sx = lax_pair(int, 'enum', [1, 2, 3])
        x = V.int('x')
    elif k == 'enum-str':
        T, Sx = lax_pair(str, 'enum', ['a', 'b'])
        x = V.pick('s', ['a', 'b', '', 'A', 'c'])
    else:
        T, Sx = lax_pair(int, 'enum', Col)
        x = V.int('x', 0, 3)
    lax_check(V, T, Sx, x, k)


@ob('lax/unique_items', marks=['accept'], budget=(60, 200),
    bounds='Rule[list](unique_items=Lax(True)) and tuple, n <= 4 solver ints in 0..3: output has pairwise distinct items, keeps '
           'first occurrences in order, is a fixed point and passes the strict constraint')
def lax_unique(V):
    kind = V.pick('kind', ['list', 'tuple'])
    origin = {'list': list, 'tuple': tuple}[kind]
    n = V.pick('n', [0, 1, 2, 3, 4] if V.thorough else [0, 1, 2, 3])
    x = origin([V.int('x%d' % i, 0, 3) for i in range(n)])
    T, Sx = lax_pair(origin, 'unique_items', True)
    y = lax_check(V, T, Sx, x, 'unique_items:' + kind)
    if y is not None:
        want = []
        for v in x:
            if not any(v == w for w in want):
                want.append(v)
        V.check(same(y, origin(want)), 'lax:value:unique_items', lambda: '%r -> %r' % (x, y))


UNHASHABLE = [[1], [1.0], [True], [2], {'a': 1, 'b': 2}, {'b': 2, 'a': 1}, {1, 2, 3}, {3, 2, 1}, {'a': 1}, 1, 1.0, True, '1', None]


@ob('lax/unique_items-mixed', marks=['accept'], budget=(60, 200),
    bounds='Rule[list](unique_items=Lax(True)), n <= 3 items picked from %d values: unhashable items that are equal but spelled differently '
           '([1] / [1.0] / [True], dicts in two key orders, sets in two orders), and 1 / 1.0 / True / "1": the output keeps first occurrences, '
           'has pairwise distinct (==) items, is a fixed point and passes the strict constraint' % len(UNHASHABLE))
def lax_unique_mixed(V):
    n = V.pick('n', [1, 2, 3])
    x = [UNHASHABLE[V.pick('i%d' % i, list(range(len(UNHASHABLE))))] for i in range(n)]
    T, Sx = lax_pair(list, 'unique_items', True)
    y = lax_check(V, T, Sx, x, 'unique_items:mixed')
    if y is not None:
        want = []
        for v in x:
            if not any(v == w for w in want):
                want.append(v)
        V.check(len(y) == len(want) and all(a == b and type(a) is type(b) for a, b in zip(y, want)), 'lax:value:unique_items',
                lambda: '%r -> %r' % (x, y))


DECIMALS = ['0', '1', '1.5', '1.25', '12.345', '123.456', '0.001', '99.99', '9.995', '-1.005', '1E+2', '1E-3', '100', '1234.5']


@ob('lax/digits', marks=['accept', 'reject'], budget=(60, 200),
    bounds='lax max_digits (1..5) and lax decimal_places (0..3) on Decimal literals picked from a vocabulary of 14 (enumeration, '
           'stated): output is a fixed point and passes the strict constraint',
    out='Decimal values as solver terms (CrossHair\'s Decimal is unreliable); float rounding')
def lax_digits(V):
    k = V.pick('k', ['max_digits', 'decimal_places'])
    n = V.pick('n', [1, 2, 3, 4, 5] if k == 'max_digits' else [0, 1, 2, 3])
    x = Decimal(V.pick('x', DECIMALS))
    T, Sx = lax_pair(Decimal, k, n)
    lax_check(V, T, Sx, x, k)


@ob('staged-union-lax', marks=['accept', 'reject'], budget=(90, 300),
    bounds='Union of Rule[int](gt=a) (a in -3..3 symbolic) and Rule[str](max_length=Lax(3)) / Rule[str](max_length=3) in either order; '
           'x = solver int | one of 10 strings (numeric, mixed, long) | bytes | 1.5 | None; flags solver-picked: the stage that '
           'accepted x must accept its own output unchanged')
def staged_union_lax(V):
    a = V.int('a', -3, 3)
    PI_ = Rule.annotate(int, constraints={'gt': a}, name='IntGt')
    lax = V.bool('lax_arm')
    ST = Rule.annotate(str, constraints={'max_length': Lax(3) if lax else 3}, name='Code')
    from utype.parser.rule import LogicalType
    T = LogicalType.any_of(PI_, ST) if V.bool('int_first') else LogicalType.any_of(ST, PI_)
    o = sym_flags(V)
    k = V.pick('xk', ['int', 'str', 'other'])
    x = V.int('x', -5, 5) if k == 'int' else V.pick('xs', ['123abc', '12', '123', 'abcd', '5', '-7', '', ' 4 ', '1.5', '0123']) \
        if k == 'str' else V.pick('xo', [b'12', b'123abc', 1.5, None, True, [1]])
    r = parse(T, x, o)
    if r[0] == 'ok':
        reparse(V, T, o, r[1], 'staged-union-lax', lambda: 'Union(int>%d, str max_length=%s) options=%r input=%r -> %r' % (
            a, 'Lax(3)' if lax else 3, o, x, r[1]))
        V.cover('accept')
    else:
        V.cover('reject')


RAW_UNIONS = {'float|Decimal': (float, Decimal), 'int|float': (int, float), 'int|str': (int, str), 'str|bytes': (str, bytes),
              'Decimal|float': (Decimal, float), 'bool|int': (bool, int), 'list|tuple': (list, tuple)}
RAW_IN = ['0.1', '19.99', '2.5', '3', 'abc', '', b'7', 0.1, 2.5, 3, True, Decimal('0.1'), Decimal('3'), None, [1, '2'], (1, 2), 'true']


@ob('staged-union-raw', marks=['accept', 'reject'], budget=(60, 200),
    bounds='Union of two plain types (%s) in the listed order; x picked from %d values (numeric strings whose float and Decimal readings '
           'differ, bytes, floats, Decimals, bools, sequences); flags solver-picked: a result re-parsed with the same union and options is '
           'unchanged (equal value, same type)' % (', '.join(RAW_UNIONS), len(RAW_IN)))
def staged_union_raw(V):
    from utype.parser.rule import LogicalType
    name = V.pick('U', sorted(RAW_UNIONS))
    T = LogicalType.any_of(*RAW_UNIONS[name])
    o = sym_flags(V)
    x = V.pick('x', RAW_IN)
    r = parse(T, x, o)
    if r[0] != 'ok':
        V.cover('reject')
        return
    z = parse(T, r[1], o)
    V.check(z[0] == 'ok' and type(z[1]) is type(r[1]) and (z[1] == r[1] or (z[1] != z[1] and r[1] != r[1])), 'idempotent:reparse-changed:staged-union-raw',
            lambda: 'Union[%s] options=%r input=%r -> %r (%s) ; re-parse -> %r' % (name, o, x, r[1], type(r[1]).__name__, z))
    V.cover('accept')


class _Article(td.Schema):
    __options__ = td.Options(addition=False)
    title: str
    views: int = td.Field(no_input=True, default=0)

    @property
    def slug(self) -> str:
        return self.title.lower()


class _Strict(td.Schema):
    __options__ = td.Options(no_data_loss=True)
    title: str
    n: int = td.Field(alias_from=['count'], default=0)

    @property
    def size(self) -> int:
        return len(self.title)


class _Aliased(td.Schema):
    __options__ = td.Options(addition=False, case_insensitive=True)
    title: str = td.Field(alias='headline')
    ro: int = td.Field(mode='r', default=3)
    n: int = td.Field(alias_from=['count'], default=0)


class _Open(td.Schema):
    __options__ = td.Options(addition=True)
    title: str
    views: int = td.Field(no_input=True, default=0)


SELF_CLASSES = {'Article': _Article, 'Strict': _Strict, 'Aliased': _Aliased, 'Open': _Open, 'TNoIn': td.TNoIn, 'TInner': td.TInner}
SELF_KEYS = ['title', 'headline', 'TITLE', 'views', 'n', 'count', 'ro', 'x', 'y', 'extra', 'slug', 'size', 'stamp']
SELF_VALUES = ['Hello', b'ab', 3, '4', 'x', None, 1.5]


@ob('idempotent/dataclass-self', marks=['accept', 'reject'], budget=(60, 300), per_path=(10, 20), exhaustive=False,
    bounds='data classes %s (no-input fields with defaults, computed properties, read-mode fields, aliases, addition False/True, '
           'no_data_loss); input: up to 3 solver-picked keys from %r with values from %r; an accepted instance fed back through '
           'T.__from__(inst), T(inst) and T(**inst) is accepted again and equal' % (sorted(SELF_CLASSES), SELF_KEYS, SELF_VALUES),
    out='tree not expected to close within the quick budget')
def dataclass_self(V):
    name = V.pick('T', sorted(SELF_CLASSES))
    T = SELF_CLASSES[name]
    items = {}
    for i in range(V.int('n', 0, 3)):
        items[V.pick('k%d' % i, SELF_KEYS)] = V.pick('v%d' % i, SELF_VALUES)
    try:
        y = T(**items)
    except Exception:  # noqa
        V.cover('reject')
        return
    for label, again in (('__from__', lambda: T.__from__(y)), ('positional', lambda: T(y)), ('keywords', lambda: T(**y))):
        try:
            z = again()
        except Exception as e:  # noqa
            V.fail('idempotent:reparse-rejected:dataclass-' + label, '%s(**%r) = %r; %s re-parse raised %s: %s' % (name, items, y, label, type(e).__name__, str(e)[:120]))
        V.check(z == y and type(z) is type(y) and dict(z) == dict(y), 'idempotent:reparse-changed:dataclass-' + label,
                lambda: '%s(**%r) = %r; %s re-parse -> %r' % (name, items, y, label, z))
    V.cover('accept')


# ------------------------------------------------------------------ a lax constraint beside strict ones
@ob('lax/with-strict', marks=['accept', 'reject'], budget=(60, 200),
    bounds='Rule[int](ge=a | le=a strict, multiple_of=Lax(k)), a solver int -3..3, k in {2, 3}, x unbounded solver int; '
           'Rule[str](regex=[a-z]+(-[a-z]+)* strict, max_length=Lax(3)) on 8 picked strings; Rule[list](min_length=2 strict, '
           'unique_items=Lax(True)) on lists of <= 3 ints 0..1: an accepted output satisfies the strict constraints as well and is a fixed point')
def lax_with_strict(V):
    import re as _re
    kind = V.pick('kind', ['int-ge', 'int-le', 'str', 'list'])
    if kind in ('int-ge', 'int-le'):
        a, k, x = V.int('a', -3, 3), V.pick('k', [2, 3]), V.int('x')
        T = Rule.annotate(int, constraints={'ge' if kind == 'int-ge' else 'le': a, 'multiple_of': Lax(k)})
        strict_ok = lambda y: (y >= a if kind == 'int-ge' else y <= a) and y % k == 0
    elif kind == 'str':
        x = V.pick('s', ['ab-cd', 'abc-d', 'a-b', 'abcd', 'ab', 'a--b', '-ab', 'abc'])
        T = Rule.annotate(str, constraints={'regex': '[a-z]+(-[a-z]+)*', 'max_length': Lax(3)})
        strict_ok = lambda y: _re.fullmatch('[a-z]+(-[a-z]+)*', y) is not None and len(y) <= 3
    else:
        x = [V.int('e%d' % i, 0, 1) for i in range(V.pick('n', [0, 1, 2, 3]))]
        T = Rule.annotate(list, constraints={'min_length': 2, 'unique_items': Lax(True)})
        strict_ok = lambda y: len(y) >= 2 and len(set(y)) == len(y)
    r = run(T, x)
    if r[0] != 'ok':
        V.cover('reject')
        return
    y = r[1]
    det = lambda: '%s: %r -> %r' % (kind, x, y)
    V.check(strict_ok(y), 'lax:with-strict:output-violates-a-strict-constraint', det)
    r2 = run(T, y)
    V.check(r2[0] == 'ok' and same(r2[1], y), 'lax:with-strict:not-a-fixed-point', lambda: det() + ' -> %r' % (r2[1:],))
    V.cover('accept')


# ------------------------------------------------------------------ two lax constraints that both only shrink the value
@ob('lax/two-lax', marks=['accept'], budget=(60, 200),
    bounds='Rule[int](le=Lax(a), multiple_of=Lax(k)), a solver int -5..9, k in {2, 3}, x unbounded solver int; Rule[list](max_length=Lax(m), '
           'unique_items=Lax(True)), m in 1..3, lists of <= 4 ints 0..2; Rule[Decimal](multiple_of=Lax(0.1 / 0.25 / 3)) on 7 literals: the '
           'output satisfies the strict form of every constraint and is a fixed point (constraints that only shrink converge in '
           'declaration order)')
def lax_two(V):
    kind = V.pick('kind', ['int', 'list', 'decimal'])
    if kind == 'int':
        a, k, x = V.int('a', -5, 9), V.pick('k', [2, 3]), V.int('x')
        T = Rule.annotate(int, constraints={'le': Lax(a), 'multiple_of': Lax(k)})
        strict_ok = lambda y: y <= a and y % k == 0
    elif kind == 'list':
        m = V.pick('m', [1, 2, 3])
        x = [V.int('e%d' % i, 0, 2) for i in range(V.pick('n', [0, 1, 2, 3, 4]))]
        T = Rule.annotate(list, constraints={'max_length': Lax(m), 'unique_items': Lax(True)})
        strict_ok = lambda y: len(y) <= m and len(set(y)) == len(y)
    else:
        div = V.pick('divisor', [0.1, 0.25, 3, 0.3])
        x = Decimal(V.pick('lit', ['1', '0.95', '1.2', '7', '0.05', '100.01', '-0.35']))
        with V.notrace():
            T = Rule.annotate(Decimal, constraints={'multiple_of': Lax(div)})
        strict_ok = lambda y: y % Decimal(str(div)) == 0
    r = run(T, x)
    if r[0] != 'ok':
        return
    y = r[1]
    det = lambda: '%s: %r -> %r' % (kind, x, y)
    V.check(strict_ok(y), 'lax:two-lax:output-violates-strict-form', det)
    r2 = run(T, y)
    V.check(r2[0] == 'ok' and same(r2[1], y), 'lax:two-lax:not-a-fixed-point', lambda: det() + ' -> %r' % (r2[1:],))
    V.cover('accept')
