"""C09 -- logical type combinators mean what they say"""
from typing import Any, List

from utype import Rule, Schema, exc, types
from utype.parser.rule import LogicalType
from utype.utils.transform import type_transform
from vt.ob import ob
from vt.h import attempt

PROP = 'C09'
ASSUMPTIONS = [
    "'argument accepts x' is decided by converting x with that argument alone under default options "
    '(type_transform(x, arg)); raw builtins raise TypeError/ValueError there, which counts as reject',
]


class P(Schema):
    x: int


VOCAB = ['', '0', '5', '-3', 'abc', 'true', 'null', '[1]', '2.5']
OBJS = [None, [1], ['a'], [], {'x': 1}, {'x': 'q'}, b'7', 2.5, 3.0]


def leaves(V, with_sym=True):
    a, b = V.int('a'), V.int('b')
    return [
        ('Ge', Rule.annotate(int, constraints={'ge': a}, name='Ge')),
        ('Lt', Rule.annotate(int, constraints={'lt': b}, name='Lt')),
        ('str', str),
        ('bool', bool),
        ('None', type(None)),
        ('ListInt', Rule.annotate(list, int, name='ListInt')),
        ('P', P),
        ('Str', types.Str),
        ('Bool', types.Bool),
        ('Int', types.Int),
    ]


NUMERIC_LEAVES = ('Ge', 'Lt', 'Int', 'ListInt')
INTS = [0, 1, -3, 7]


def value(V, names=(), name='x'):
    """symbolic ints only reach leaves that treat them arithmetically; str()/bool() of an unbounded symbolic
    int enumerates digits (non-linear, minutes of solver time), so other leaves get picked ints"""
    k = V.pick(name + 'k', ['int', 'bool', 'str', 'obj'])
    if k == 'int':
        if all(n in NUMERIC_LEAVES for n in names):
            return V.int(name)
        return V.pick(name + 'i', INTS)
    if k == 'bool':
        return V.bool(name + 'b')
    if k == 'str':
        return V.pick(name + 's', VOCAB)
    return V.pick(name + 'o', OBJS)


def conv(T, x):
    return attempt(type_transform, x, T)


def acc(r):
    return r[0] == 'ok'


def same(a, b):
    return type(a) is type(b) and (a == b or (a != a and b != b))


LEAF_NAMES = ['Ge', 'Lt', 'str', 'bool', 'None', 'ListInt', 'P', 'Str', 'Bool', 'Int']


def pick2(V, ls, i):
    j = V.pick('R', list(range(len(ls))))
    return ls[i], ls[j], i, j


def per_left_leaf(name, **kw):
    """one obligation per left argument (parallelism; each tree closes in seconds)"""
    def deco(fn):
        for i, n in enumerate(LEAF_NAMES):
            ob('%s/%s' % (name, n), **kw)((lambda i: lambda V: fn(V, i))(i))
        return fn
    return deco


@per_left_leaf('xor', marks=['accept'], budget=(40, 120),
    bounds='OneOf(L, R) and OneOf(R, L), L fixed per obligation, R solver-picked among 10 leaves (Rule[int](ge=a), Rule[int](lt=b) with '
           'unbounded symbolic a, b; str, bool, NoneType, List[int], a Schema, types.Str/Bool/Int); x = unbounded '
           'symbolic int (when both leaves are arithmetic: Ge/Lt/Int/List[int]) | 4 picked ints | bool | 9 vocabulary '
           'strings | 9 objects',
    out='trees deeper than 2 (see xor3), text->number conversion beyond the vocabulary')
def xor(V, i):
    ls = leaves(V)
    (ln, L), (rn, R), i, j = pick2(V, ls, i)
    if i == j:
        return
    x = value(V, (ln, rn))
    la, ra = conv(L, x), conv(R, x)
    T1, T2 = LogicalType.one_of(L, R), LogicalType.one_of(R, L)
    r1, r2 = conv(T1, x), conv(T2, x)
    exact = type(x) is L or type(x) is R
    tag = ':exact-type' if exact else ''
    expect = acc(la) != acc(ra)
    d = lambda: 'OneOf(%s, %s)(%r): left accepts=%r right accepts=%r -> %r ; reversed -> %r' % (
        ln, rn, x, acc(la), acc(ra), r1[:1] + (r1[1] if acc(r1) else type(r1[1]).__name__,),
        r2[:1] + (r2[1] if acc(r2) else type(r2[1]).__name__,))
    V.check(acc(r1) == acc(r2), 'xor:order' + tag, d)
    V.check(acc(r1) == expect, 'xor:verdict' + tag + (':both' if acc(la) and acc(ra) else ''), d)
    if acc(r1) and not exact:
        want = la[1] if acc(la) else ra[1]
        V.check(same(r1[1], want) and same(r2[1], want), 'xor:value', d)
    if acc(r1) and exact:
        V.check(r1[1] is x or same(r1[1], x), 'xor:exact-altered', d)
    V.cover('accept' if acc(r1) else 'reject-both' if acc(la) else 'reject-none')


@per_left_leaf('union', marks=['accept'], budget=(40, 120),
    bounds='AnyOf(L, R) over the same leaves and inputs as xor',
    out='as xor')
def union(V, i):
    ls = leaves(V)
    (ln, L), (rn, R), i, j = pick2(V, ls, i)
    if i == j:
        return
    x = value(V, (ln, rn))
    la, ra = conv(L, x), conv(R, x)
    T = LogicalType.any_of(L, R)
    r = conv(T, x)
    d = lambda: 'AnyOf(%s, %s)(%r): left=%r right=%r -> %r' % (ln, rn, x, acc(la), acc(ra), r)
    V.check(r[0] != 'crash' or not isinstance(r[1], exc.ParseError), 'union:crash', d)
    if type(x) is L or type(x) is R:
        V.check(acc(r) and (r[1] is x or same(r[1], x)), 'union:exact-not-unchanged', d)
        V.cover('exact')
        return
    V.check(acc(r) == (acc(la) or acc(ra)), 'union:verdict', d)
    if acc(r):
        # the result conforms to an accepting argument: that argument maps the result to itself
        ok = False
        for leaf, lr in ((L, la), (R, ra)):
            if acc(lr):
                rr = conv(leaf, r[1])
                if acc(rr) and same(rr[1], r[1]):
                    ok = True
        V.check(ok, 'union:result-nonconforming', d)
    V.cover('accept' if acc(r) else 'reject')


@ob('negation', marks=['accept', 'reject'],
    bounds='Not(L) over the same leaves and inputs; plus double negation identity')
def negation(V):
    ls = leaves(V)
    i = V.pick('L', list(range(len(ls))))
    ln, L = ls[i]
    x = value(V, (ln,))
    la = conv(L, x)
    N = LogicalType.not_of(L)
    r = conv(N, x)
    d = lambda: 'Not(%s)(%r): arg accepts=%r -> %r' % (ln, x, acc(la), r)
    V.check(acc(r) == (not acc(la)), 'not:verdict', d)
    if acc(r):
        V.check(r[1] is x or same(r[1], x), 'not:altered', d)
    if isinstance(N, LogicalType):
        V.check((~N) is L, 'not:double-negation', lambda: repr(~N))
    V.cover('accept' if acc(r) else 'reject')


@per_left_leaf('conjunction', marks=['accept'], budget=(40, 120),
    bounds='AllOf(L, R): equals R applied to the result of L, over the same leaves and inputs')
def conjunction(V, i):
    ls = leaves(V)
    (ln, L), (rn, R), i, j = pick2(V, ls, i)
    if i == j:
        return
    x = value(V, (ln, rn))
    T = LogicalType.all_of(L, R)
    r = conv(T, x)
    la = conv(L, x)
    seq = conv(R, la[1]) if acc(la) else la
    d = lambda: 'AllOf(%s, %s)(%r): sequential=%r combinator=%r' % (ln, rn, x, seq, r)
    V.check(acc(r) == acc(seq), 'and:verdict', d)
    if acc(r):
        V.check(same(r[1], seq[1]), 'and:value', d)
    V.cover('accept' if acc(r) else 'reject')


@per_left_leaf('union-in-conjunction', marks=['accept'], budget=(260, 600),
    bounds='AllOf(AnyOf(L, R), S): equals S applied to the result of AnyOf(L, R) taken alone (a union that only succeeds in a '
           'late stage, after other arguments failed, must not leave its intermediate errors behind); L fixed, R solver-picked among 10, S among {Ge, Str}'
           'solver-picked; also under collect_errors',
    out='as xor')
def union_in_conjunction(V, i):
    ls = leaves(V)
    (ln, L), (rn, R), i, j = pick2(V, ls, i)
    sub = [0, 7]      # Ge, Str
    k = V.pick('S', sub)
    sn, S = ls[k]
    if i == j:
        return
    x = value(V, (ln, rn, sn))
    U = LogicalType.any_of(L, R)
    T = LogicalType.all_of(U, S)
    collect = V.bool('collect_errors')
    from utype import Options
    o = Options(collect_errors=True) if collect else Options()
    r = attempt(type_transform, x, T, o)
    u = attempt(type_transform, x, U, o)
    seq = attempt(type_transform, u[1], S, o) if acc(u) else u
    d = lambda: 'AllOf(AnyOf(%s, %s), %s)(%r) collect_errors=%r: union alone=%r then %s=%r ; combinator=%r' % (
        ln, rn, sn, x, collect, u, sn, seq, r)
    V.check(acc(r) == acc(seq), 'and-of-union:verdict', d)
    if acc(r):
        V.check(same(r[1], seq[1]), 'and-of-union:value', d)
    V.cover('accept' if acc(r) else 'reject')


X3 = ('Ge', 'Lt', 'ListInt', 'Str', 'Bool', 'Int')


def _xor3(V, i):
    ls = [l for l in leaves(V) if l[0] in X3]
    idx = list(range(len(ls)))
    j, k = V.pick('B', idx), V.pick('C', idx)
    if i == j or j == k or i == k:
        return
    x = value(V, (ls[i][0], ls[j][0], ls[k][0]))
    A, B, C = ls[i][1], ls[j][1], ls[k][1]
    n = sum(1 for t in (A, B, C) if acc(conv(t, x)))
    r = conv(LogicalType.one_of(A, B, C), x)
    V.check(acc(r) == (n == 1), 'xor3:verdict', lambda: 'OneOf(%s,%s,%s)(%r): %d accept -> %r' % (
        ls[i][0], ls[j][0], ls[k][0], x, n, r))
    V.cover('accept' if acc(r) else 'reject')


for _i, _n in enumerate(X3):
    ob('xor3/' + _n, marks=['accept', 'reject'], budget=(100, 300),
       bounds='OneOf(A, B, C), A=%s, B and C solver-picked among the non-exact-type leaves (Ge, Lt, ListInt, Str, '
              'Bool, Int) in either order: accepts iff exactly one accepts' % _n)(
        (lambda i: lambda V: _xor3(V, i))(_i))


def _algebra(V, op):
    ls = leaves(V)
    idx = list(range(len(ls)))
    sub = [0, 2, 4, 6, 7, 9]        # Ge, str, None, P, Str, Int
    i, j, k = V.pick('A', idx), V.pick('B', sub), V.pick('C', sub)
    A, B, C = ls[i][1], ls[j][1], ls[k][1]
    comb = lambda *a: LogicalType.combine(op, *a)
    V.check(comb(A, A) is A, 'algebra:duplicate', lambda: repr(comb(A, A)))
    if op in '|^':
        V.check(comb(A, Any) is Rule, 'algebra:any', lambda: repr(comb(A, Any)))
    else:
        V.check(comb(A, Any) is A, 'algebra:any-and', lambda: repr(comb(A, Any)))
    if len({i, j, k}) == 3:
        AB = comb(A, B)
        for T in (AB.combine_by(op, C), comb(AB, C) if False else AB.combine_by(op, C)):
            V.check(T.combinator == op and tuple(T.args) == (A, B, C), 'algebra:flatten',
                    lambda: '%r args=%r' % (T, T.args))
            # deriving a wider type must not change the operand it was derived from
            V.check(tuple(AB.args) == (A, B) and T is not AB, 'algebra:operand-mutated',
                    lambda: 'after (A %s B) %s C the left operand has args %r' % (op, op, AB.args))
        T2 = LogicalType.combine(op, C).combine_by(op, AB) if isinstance(C, LogicalType) else None
        if T2 is not None:
            V.check(tuple(T2.args) == (C, A, B), 'algebra:flatten-right', lambda: repr(T2.args))
        # operators on a data class (LogicalMeta) agree with LogicalType.combine
        if A is not P:
            import operator
            fn = {'|': operator.or_, '^': operator.xor, '&': operator.and_}[op]
            for l, r in ((P, A), (A, P)):
                if not isinstance(A, LogicalType) and l is A:
                    continue     # raw builtin on the left with a data class on the right: reflected op only
                t = attempt(fn, l, r)
                V.check(t[0] == 'ok', 'algebra:meta-operator-crash', lambda: '%s %s %s raised %r' % (
                    getattr(l, '__name__', l), op, getattr(r, '__name__', r), t[1]))
                V.check(t[1].combinator == op and tuple(t[1].args) == (l, r), 'algebra:meta-operator',
                        lambda: repr(t[1]))
    N = LogicalType.not_of(A)
    V.check((~N) is A, 'algebra:double-negation', lambda: repr(~N))
    if isinstance(A, LogicalType) and not A.combinator:
        V.check((~(~A)) is A, 'algebra:double-negation-op', lambda: repr(~(~A)))
    V.cover('done')


for _op, _nm in (('|', 'or'), ('^', 'xor'), ('&', 'and')):
    ob('algebra/' + _nm, marks=['done'], budget=(60, 150),
       bounds='construction identities for %r on solver-picked leaves (A among 10, B and C among 6): ~~L is L; '
              'duplicates collapse; Any absorbs (| and ^ give Rule, & drops it); nested same-kind combinators '
              'flatten in order; data-class operators (LogicalMeta) build the same trees in both operand orders' % _op)(
        (lambda op: lambda V: _algebra(V, op))(_op))


# ------------------------------------------------------------------ negation over plain types (their converters raise bare exceptions)
from decimal import Decimal  # noqa: E402

from typing import Any as _Any  # noqa: E402

RAW = [('int', int), ('float', float), ('Decimal', Decimal), ('str', str), ('bool', bool), ('list', list), ('dict', dict), ('Any', _Any)]
RAW_X = [0, 5, -3, 2.5, float('inf'), float('-inf'), float('nan'), 10 ** 400, 'abc', '7', '', None, [1], {'a': 1}, b'x', Decimal('NaN'),
         Decimal('Infinity'), object]


@ob('negation-raw', marks=['accept', 'reject'], budget=(60, 200),
    bounds='Not(T) for plain types T in {int, float, Decimal, str, bool, list, dict, Any} (Not(Any) rejects everything) and AllOf(float, Not(T)); x picked from 18 values '
           'incl. +-inf, nan, 10**400, Decimal NaN / Infinity: accepts exactly when T alone rejects (whatever exception the converter '
           'raises), returns the input unchanged, and only ParseError escapes')
def negation_raw(V):
    name, T = V.pick('T', RAW)
    x = V.pick('x', RAW_X)
    la = conv(T, x)
    nested = V.bool('inside_conjunction')
    if nested:
        N = LogicalType.all_of(float, LogicalType.not_of(T))
        fa = conv(float, x)
        expect = acc(fa) and not acc(conv(T, fa[1]))
    else:
        N = LogicalType.not_of(T)
        expect = not acc(la)
    r = conv(N, x)
    d = lambda: '%s(%r): %s alone -> %s ; combinator -> %r' % ('AllOf(float, Not(%s))' % name if nested else 'Not(%s)' % name, x, name,
                                                              la[0], r if acc(r) else (r[0], type(r[1]).__name__, str(r[1])[:80]))
    V.check(r[0] != 'crash', 'not:crash', d)
    V.check(acc(r) == expect, 'not:verdict-raw', d)
    if acc(r) and not nested:
        V.check(r[1] is x or same(r[1], x), 'not:altered', d)
    V.cover('accept' if acc(r) else 'reject')


# ------------------------------------------------------------------ negation of a class and of its subclass; combinators behind assignments
class NParent(int, Rule):
    ge = 0


class NChild(NParent):
    le = 10


class NGrand(NChild):
    multiple_of = 2


@ob('negation-subclass', marks=['accept', 'reject'], budget=(40, 100),
    bounds='Rule classes Parent(ge=0) > Child(le=10) > Grand(multiple_of=2); their negations are built in a solver-picked order (a '
           'negation built for a base must not be taken for its subclass); x unbounded solver int: ~T accepts exactly when T rejects, '
           'for each of the three, and ~~T is T')
def negation_subclass(V):
    order = V.pick('order', ['PCG', 'GCP', 'CPG', 'PGC'])
    cls = {'P': NParent, 'C': NChild, 'G': NGrand}
    neg = {}
    for k in order:
        neg[k] = ~cls[k]
    x = V.int('x')
    which = V.pick('which', ['P', 'C', 'G'])
    T, N = cls[which], neg[which]
    inner = acc(conv(T, x))
    r = conv(N, x)
    d = lambda: 'negations built in order %s: (~%s)(%r) -> %s, %s alone %s' % (order, T.__name__, x, r[0], T.__name__, 'accepts' if inner else 'rejects')
    V.check(acc(r) == (not inner), 'not:verdict:subclass', d)
    V.check((~N) is T, 'algebra:double-negation:subclass', lambda: 'order %s: ~~%s is %r' % (order, T.__name__, ~N))
    V.cover('accept' if acc(r) else 'reject')


class NSmall(int, Rule):
    le = 5


class NEven(int, Rule):
    multiple_of = 2


class NItem(Schema):
    big: ~NSmall = 9
    code: NSmall ^ NEven = 3
    either: NSmall | NEven = 1
    both: NSmall & NEven = 2


@ob('combinators-behind-assignment', marks=['accept', 'reject'], budget=(60, 150),
    bounds='Schema fields typed ~Small, Small ^ Even, Small | Even, Small & Even (Small: le=5, Even: multiple_of=2); a solver int '
           'assigned through the constructor, attribute assignment, item assignment and update(): each route accepts exactly when the '
           'combinator called directly accepts, and stores the same value')
def combinators_behind_assignment(V):
    fld = V.pick('field', ['big', 'code', 'either', 'both'])
    T = {'big': ~NSmall, 'code': NSmall ^ NEven, 'either': NSmall | NEven, 'both': NSmall & NEven}[fld]
    x = V.int('x', -3, 12)
    direct = conv(T, x)
    route = V.pick('route', ['constructor', 'setattr', 'setitem', 'update'])
    try:
        if route == 'constructor':
            inst = NItem(**{fld: x})
        else:
            inst = NItem()
            if route == 'setattr':
                if fld == 'big':
                    inst.big = x
                elif fld == 'code':
                    inst.code = x
                elif fld == 'either':
                    inst.either = x
                else:
                    inst.both = x
            elif route == 'setitem':
                inst[fld] = x
            else:
                inst.update({fld: x})
        got = ('ok', inst[fld])
    except exc.ParseError:
        got = ('err',)
    d = lambda: 'field %s <- %r via %s: %r ; the combinator called directly: %r' % (fld, x, route, got, direct if acc(direct) else ('err',))
    V.check((got[0] == 'ok') == acc(direct), 'assignment:verdict:' + fld, d)
    if got[0] == 'ok':
        V.check(same(got[1], direct[1]), 'assignment:value:' + fld, d)
    V.cover('accept' if got[0] == 'ok' else 'reject')
