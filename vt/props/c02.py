"""C02 -- validation is exact on well-typed values and agrees with isinstance"""
import re
from decimal import Decimal
from enum import Enum

from utype import Rule, exc
from utype.parser.rule import Constraints
from vt.ob import ob
from vt.h import attempt, isinst, declare

PROP = 'C02'
ASSUMPTIONS = [
    "'well-typed' is read as type(x) is the source type (bool inputs to int rules are conversions: C01/C12)",
    'digits obligation: Decimal.as_tuple() is replaced by its documented contract (sign, digit tuple, exponent) with '
    'solver-chosen digit count and exponent; the real Decimal arithmetic is exercised by picked literals only',
]


def verdicts(V, T, x, expect, tag, detail=None, same_type=True):
    """common assertions: accept <=> expect, result == input (same type), isinstance agrees"""
    r = attempt(T, x)
    V.check(r[0] != 'crash', 'crash:' + tag, lambda: repr(r[1]))
    ok = r[0] == 'ok'
    d = detail or (lambda: 'x=%r accepted=%r expected=%r' % (x, ok, expect))
    V.check(ok == expect, 'verdict:' + tag, d)
    if ok:
        V.check(r[1] == x and (not same_type or type(r[1]) is type(x)), 'altered:' + tag,
                lambda: '%r -> %r' % (x, r[1]))
    V.check(isinst(T, x) == expect, 'isinstance:' + tag, d)
    V.cover('accept' if ok else 'reject')


# ------------------------------------------------------------------ (a) integer bounds
@ob('int-bounds', marks=['accept', 'reject', 'refused-declaration'],
    bounds='gt/ge x lt/le (9 kind combinations); a, b, x unbounded symbolic ints',
    out='bounds on non-numeric comparables (dates, strings)')
def int_bounds(V):
    lo = V.pick('lo', [None, 'gt', 'ge'])
    hi = V.pick('hi', [None, 'lt', 'le'])
    a, b, x = V.int('a'), V.int('b'), V.int('x')
    cons = {}
    if lo:
        cons[lo] = a
    if hi:
        cons[hi] = b
    T = declare(Rule.annotate, int, constraints=cons)
    if T is None:
        V.cover('refused-declaration')
        return
    expect = True
    if lo == 'gt' and not x > a:
        expect = False
    if lo == 'ge' and not x >= a:
        expect = False
    if hi == 'lt' and not x < b:
        expect = False
    if hi == 'le' and not x <= b:
        expect = False
    verdicts(V, T, x, expect, '%s%s' % (lo, hi), lambda: 'cons=%r x=%r' % (cons, x))


# ------------------------------------------------------------------ (b) float bounds incl. nan/inf
@ob('float-bounds', marks=['accept', 'reject'], budget=(60, 200),
    bounds='one of gt/ge/lt/le with a bound picked from {0.0, -1.5, 2.25}; x = CrossHair float '
           '({nan, +inf, -inf} U reals; rounding not modelled)', exhaustive=False,
    out='IEEE rounding; two-sided float bounds')
def float_bounds(V):
    k = V.pick('k', ['gt', 'ge', 'lt', 'le'])
    a = V.pick('a', [0.0, -1.5, 2.25])
    x = V.float('x')
    T = Rule.annotate(float, constraints={k: a})
    if k == 'gt':
        expect = x > a
    elif k == 'ge':
        expect = x >= a
    elif k == 'lt':
        expect = x < a
    else:
        expect = x <= a
    expect = True if expect else False
    r = attempt(T, x)
    V.check(r[0] != 'crash', 'crash:float', lambda: repr(r[1]))
    ok = r[0] == 'ok'
    isnan = x != x
    V.check(ok == expect, 'verdict:float:' + ('nan' if isnan else k), lambda: '%s=%r x=%r accepted=%r' % (k, a, x, ok))
    V.check(isinst(T, x) == expect, 'isinstance:float:' + k, lambda: '%s=%r x=%r' % (k, a, x))
    V.cover('accept' if ok else 'reject')


# ------------------------------------------------------------------ (c) length constraints
def _sized(V, kind, ln):
    if kind == 'str':
        return 'abcdefg'[:ln]
    if kind == 'list':
        return [1, 2, 3, 4, 5, 6, 7][:ln]
    if kind == 'tuple':
        return (1, 2, 3, 4, 5, 6, 7)[:ln]
    return dict([(1, 1), (2, 2), (3, 3), (4, 4), (5, 5), (6, 6), (7, 7)][:ln])


def _mk_length_ob(kind):
    origin = {'str': str, 'list': list, 'tuple': tuple, 'dict': dict}[kind]

    def h(V):
        cons = {}
        n = {}
        for name in ('length', 'min_length', 'max_length'):
            if V.bool('has_' + name):
                n[name] = V.int('n_' + name, -1, 5)
                cons[name] = n[name]
        if not cons:
            return
        ln = V.int('ln', 0, 5)
        # make the structure concrete by explicit forks, keep the relation to the limits symbolic
        size = 0
        while size < 5 and not (ln == size):
            size += 1
        x = _sized(V, kind, size)
        T = declare(Rule.annotate, origin, constraints=cons)
        if T is None:
            V.cover('refused-declaration')
            return
        expect = True
        if 'length' in n and not ln == n['length']:
            expect = False
        if 'min_length' in n and not ln >= n['min_length']:
            expect = False
        if 'max_length' in n and not ln <= n['max_length']:
            expect = False
        verdicts(V, T, x, expect, 'length', lambda: 'cons=%r len=%r' % (cons, size))
    return h


for _k in ('str', 'list', 'tuple', 'dict'):
    ob('length/' + _k, marks=['accept', 'reject', 'refused-declaration'], budget=(90, 200),
       bounds='every subset of {length, min_length, max_length} with symbolic limits in -1..5 (incl. the '
              'legality rules); %s values of symbolic length 0..5' % _k,
       out='lengths > 5; objects without __len__ (converted to str by the library)')(_mk_length_ob(_k))


@ob('length-symbolic-str', marks=['accept', 'reject'],
    bounds='max_length / min_length / length with symbolic limit 1..4 on a symbolic string of length <= 4 '
           '(symbolic code points)')
def length_symstr(V):
    name = V.pick('name', ['length', 'min_length', 'max_length'])
    n = V.int('n', 1, 4)
    s = V.str('s', 4)
    T = declare(Rule.annotate, str, constraints={name: n})
    if T is None:
        return
    ln = len(s)
    expect = (ln == n) if name == 'length' else (ln >= n) if name == 'min_length' else (ln <= n)
    verdicts(V, T, s, True if expect else False, 'length-str', lambda: '%s=%r s=%r' % (name, n, s))


# ------------------------------------------------------------------ (d) regex: full match
PATTERNS = ['[a-c]+', r'\d{2,3}', 'a|bc', '(ab)*c?', 'a.c', '[^a]b']


def _mk_regex_ob(pat):
    def h(V):
        s = V.str('s', V.T(4, 5), lo=48, hi=100)   # '0'..'d' : digits, some punctuation, upper case, a-d
        T = Rule.annotate(str, constraints={'regex': pat})
        expect = re.fullmatch(pat, s) is not None
        if not expect and re.match(pat, s) is not None:
            V.cover('prefix-match-only')
        verdicts(V, T, s, expect, 'regex', lambda: 'pattern=%r s=%r' % (pat, s))
    return h


for _i, _p in enumerate(PATTERNS):
    ob('regex/%d' % _i, marks=['accept', 'reject', 'prefix-match-only'], budget=(60, 240), per_path=(15, 30),
       bounds='pattern %r, symbolic strings of length <= 4 (thorough 5) over code points 48..100' % _p,
       out='other patterns; longer strings; code points outside 48..100')(_mk_regex_ob(_p))


WIDE = ['1234567890123456789012345678', '123456789012345678901234567.8', '99999999999999999999999999.99', '1E+27', '1E+30',
        '-1234567890123456789012345678', '0.001', '12345678901234567890123456789012345']


@ob('decimal-places-wide', marks=['accept', 'reject'], budget=(40, 100),
    bounds='Rule[Decimal](decimal_places=d), d in 0..3 picked, value from %d literals with 26..35 integer digits (where the default '
           'decimal context is too narrow to complete the value to d places): accepted exactly when the value has at most d places, '
           'result equal to the input, isinstance agrees' % len(WIDE))
def decimal_places_wide(V):
    d = V.pick('d', [0, 1, 2, 3])
    x = Decimal(V.pick('lit', WIDE))
    ex = x.as_tuple()[2]
    ndec = -ex if ex < 0 else 0
    T = Rule.annotate(Decimal, constraints={'decimal_places': d})
    verdicts(V, T, x, ndec <= d, 'decimal-places-wide', lambda: 'decimal_places=%r x=%r' % (d, x))


# ------------------------------------------------------------------ constraints inherited from several bases
class _Small(int, Rule):
    le = 10


class _Even(int, Rule):
    multiple_of = 2


class _SmallEven(_Small, _Even):
    pass


class _EvenSmallPos(_Even, _Small):
    gt = 0


class _Lower(str, Rule):
    regex = '[a-z]*'


class _Short(str, Rule):
    max_length = 2


class _LowerShort(_Lower, _Short):
    pass


class _Uniq(list, Rule):
    unique_items = True


class _Pair(list, Rule):
    max_length = 2


class _UniqPair(_Uniq, _Pair):
    pass


class _Deep(_SmallEven):
    ge = -4


@ob('inherited-constraints', marks=['accept', 'reject'], budget=(60, 150),
    bounds='Rule classes assembled from two Rule bases (with and without constraints of their own; one more level of inheritance): '
           'le=10 + multiple_of=2 (+ gt=0 / ge=-4) on unbounded solver ints, regex + max_length on symbolic strings (<= 3 chars), '
           'unique_items + max_length on lists of <= 3 small ints: accepted exactly when every inherited constraint holds')
def inherited_constraints(V):
    which = V.pick('type', ['SmallEven', 'EvenSmallPos', 'Deep', 'LowerShort', 'UniqPair'])
    if which in ('SmallEven', 'EvenSmallPos', 'Deep'):
        x = V.int('x')
        expect = x <= 10 and x % 2 == 0 and (which != 'EvenSmallPos' or x > 0) and (which != 'Deep' or x >= -4)
        T = {'SmallEven': _SmallEven, 'EvenSmallPos': _EvenSmallPos, 'Deep': _Deep}[which]
    elif which == 'LowerShort':
        x = V.str('s', 3, lo=60, hi=123)
        expect = len(x) <= 2 and all('a' <= c <= 'z' for c in x)
        T = _LowerShort
    else:
        x = [V.int('e%d' % i, 0, 2) for i in range(V.pick('n', [0, 1, 2, 3]))]
        expect = len(x) <= 2 and not (len(x) == 2 and x[0] == x[1])
        T = _UniqPair
    verdicts(V, T, x, True if expect else False, 'inherited', lambda: '%s x=%r' % (which, x))


EDGE_CORES = {'[a-c]+': 'ab', r'\d{2,3}': '12', 'a|bc': 'bc', '(ab)*c?': 'abc', 'a.c': 'abc', '[^a]b': 'cb', '(?i)ab': 'AB', '^ab$': 'ab',
              'a$|b': 'a'}


@ob('regex/line-ends', marks=['accept', 'reject'], budget=(60, 150),
    bounds='patterns %r and the library types SlugStr / EmailStr; input = a matching core with a picked prefix and suffix from '
           '{"", "\\n", "\\r\\n", "\\n\\n", " ", "\\x00", "\\u2028"} (where `$`, `^`, match() and fullmatch() differ): accepted exactly when '
           're.fullmatch accepts' % sorted(EDGE_CORES))
def regex_line_ends(V):
    from utype import types as _t
    which = V.pick('type', sorted(EDGE_CORES) + ['SlugStr', 'EmailStr'])
    edges = ['', chr(10), chr(13) + chr(10), chr(10) + chr(10), ' ', chr(0), chr(0x2028)]
    pre, suf = V.pick('prefix', edges), V.pick('suffix', edges)
    if which == 'SlugStr':
        T, pat, core = _t.SlugStr, _t.SlugStr.regex, 'my-slug'
    elif which == 'EmailStr':
        T, pat, core = _t.EmailStr, _t.EmailStr.regex, 'dev@utype.io'
    else:
        pat, core = which, EDGE_CORES[which]
        with V.notrace():
            T = Rule.annotate(str, constraints={'regex': pat})
    x = pre + core + suf
    expect = re.fullmatch(pat, x) is not None
    verdicts(V, T, x, expect, 'regex:line-ends', lambda: 'pattern=%r s=%r' % (pat, x))


# ------------------------------------------------------------------ (e) const: type-exact equality
class Color(Enum):
    RED = 1
    BLUE = 2


CONSTS = [0, 1, -1, True, False, 1.0, 0.0, 'a', '', '1', None, Decimal(1), (1,), b'a']


NUMERIC = (int, float, Decimal)


@ob('const', marks=['accept', 'reject'], budget=(60, 150),
    bounds='const picked from 14 literals of 9 types; untyped Rule (direct comparison) and Rule typed with '
           'type(const); x = unbounded symbolic int (against int/bool consts) | bool | picked literal. '
           'Reference: reject if x != const; accept if equal and same type; equal values of two different '
           'non-bool numeric types are left open (the tolerance table is not documented)',
    out='consts with user-defined __eq__')
def const(V):
    c = V.pick('c', CONSTS)
    typed = V.bool('typed')
    xk = V.pick('xk', ['int', 'bool', 'lit'])
    if xk == 'int':
        if type(c) not in (int, bool):
            return
        x = V.int('x')
    elif xk == 'bool':
        x = V.bool('xb')
    else:
        x = V.pick('xl', CONSTS)
    if typed:
        if c is None:
            return
        T = declare(Rule.annotate, type(c), constraints={'const': c})
        if T is None:
            return
        if type(x) is not type(c):
            return   # not well-typed: conversion comes first (C01/C12)
    else:
        T = declare(Rule.annotate, None, constraints={'const': c})
        if T is None:
            return
    equal = True if x == c else False
    same = type(x) is type(c)
    r = attempt(T, x)
    V.check(r[0] != 'crash', 'crash:const', lambda: repr(r[1]))
    ok = r[0] == 'ok'
    d = lambda: 'const=%r (%s) x=%r (%s) typed=%r accepted=%r' % (
        c, type(c).__name__, x, type(x).__name__, typed, ok)
    if not equal:
        V.check(not ok, 'verdict:const:unequal-accepted', d)
    elif same:
        V.check(ok, 'verdict:const:equal-rejected', d)
    elif not (type(x) in NUMERIC and type(c) in NUMERIC):
        V.check(not ok, 'verdict:const:type-inexact-accepted', d)
    if ok:
        V.check(r[1] == x, 'altered:const', lambda: '%r -> %r' % (x, r[1]))
    if typed:
        V.check(isinst(T, x) == ok, 'isinstance:const', d)
    V.cover('accept' if ok else 'reject')


# ------------------------------------------------------------------ (f) enum membership
@ob('enum/list', marks=['accept', 'reject'],
    bounds='enum given as a list of 1..2 (thorough 3) unbounded symbolic ints; x unbounded symbolic int')
def enum_list(V):
    x = V.int('x')
    n = V.pick('n', [1, 2] + ([3] if V.thorough else []))
    vals = [V.int('e%d' % i) for i in range(n)]
    T = Rule.annotate(int, constraints={'enum': list(vals)})
    expect = False
    for v in vals:
        if x == v:
            expect = True
    verdicts(V, T, x, expect, 'enum')


@ob('enum/class', marks=['accept', 'reject'],
    bounds='enum given as an Enum class with values {1, 2}; x symbolic int in -3..6 (the enum module formats '
           'repr(x) into its error message, which enumerates digits: range kept small)',
    out='x outside -3..6 for Enum-class enums')
def enum_class(V):
    x = V.int('x', -3, 6)
    T = Rule.annotate(int, constraints={'enum': Color})
    expect = True if (x == 1 or x == 2) else False
    verdicts(V, T, x, expect, 'enum-class')


# ------------------------------------------------------------------ (g) multiple_of
@ob('multiple-of', marks=['accept', 'reject'],
    bounds='x unbounded symbolic int; divisor picked from {1,2,3,5,10,-2,-3, 7, 100}',
    out='symbolic divisors (non-linear), float divisors')
def multiple_of(V):
    d = V.pick('d', [1, 2, 3, 5, 10, -2, -3, 7, 100])
    x = V.int('x')
    T = declare(Rule.annotate, int, constraints={'multiple_of': d})
    if T is None:
        return
    expect = True if x % d == 0 else False
    verdicts(V, T, x, expect, 'multiple_of', lambda: 'multiple_of=%r x=%r' % (d, x))


MIXED_DIV = [(Decimal, 0.5), (Decimal, 2), (Decimal, Decimal('0.25')), (float, 0.5), (float, 2), (int, 2)]
MIXED_VAL = ['1.5', '1.25', '3', '0', '-2.5', '0.1', '1E+2']


@ob('multiple-of/mixed-types', marks=['accept', 'reject'], budget=(40, 100),
    bounds='Rule[T](multiple_of=d) for (T, d) in %r, value T(lit) for lit in %r: accepted exactly when the remainder is zero '
           '(computed exactly in Decimal for Decimal sources, with the float remainder for float sources)' % (
               [(t.__name__, d) for t, d in MIXED_DIV], MIXED_VAL))
def multiple_of_mixed(V):
    i = V.pick('td', list(range(len(MIXED_DIV))))
    t, d = MIXED_DIV[i]
    lit = V.pick('lit', MIXED_VAL)
    if t is int and ('.' in lit or 'E' in lit):
        return
    x = t(lit)
    T = declare(Rule.annotate, t, constraints={'multiple_of': d})
    if T is None:
        return
    if t is Decimal:
        expect = x % Decimal(str(d)) == 0
    else:
        expect = x % d == 0
    verdicts(V, T, x, True if expect else False, 'multiple_of:mixed', lambda: 'Rule[%s](multiple_of=%r) x=%r' % (t.__name__, d, x))


# ------------------------------------------------------------------ (h) unique_items
@ob('unique-items', marks=['accept', 'reject'],
    bounds='list / tuple of 0..3 (thorough 4) unbounded symbolic ints')
def unique_items(V):
    kind = V.pick('kind', [list, tuple])
    n = V.pick('n', list(range(0, V.T(3, 4) + 1)))
    items = [V.int('i%d' % i) for i in range(n)]
    x = kind(items)
    T = Rule.annotate(kind, constraints={'unique_items': True})
    expect = True
    for i in range(n):
        for j in range(i + 1, n):
            if items[i] == items[j]:
                expect = False
    verdicts(V, T, x, expect, 'unique_items')


# ------------------------------------------------------------------ (i) contains / min_contains / max_contains
@ob('contains', marks=['accept', 'reject', 'refused-declaration'],
    bounds='contains=Rule[int](ge=a), a symbolic; optional min_contains / max_contains in 0..3; list of 0..2 '
           '(thorough 3) unbounded symbolic ints', budget=(60, 240))
def contains(V):
    a = V.int('a')
    Elem = Rule.annotate(int, constraints={'ge': a})
    cons = {'contains': Elem}
    mn = mx = None
    if V.bool('has_min'):
        mn = V.pick('min', [0, 1, 2, 3])
        cons['min_contains'] = mn
    if V.bool('has_max'):
        mx = V.pick('max', [0, 1, 2, 3])
        cons['max_contains'] = mx
    n = V.pick('n', [0, 1, 2] + ([3] if V.thorough else []))
    items = [V.int('i%d' % i) for i in range(n)]
    T = declare(Rule.annotate, list, constraints=cons)
    if T is None:
        V.cover('refused-declaration')
        return
    cnt = 0
    for it in items:
        if it >= a:
            cnt += 1
    # documented: at least one match; min/max bound the number of matches
    expect = cnt >= 1
    if mn is not None and cnt < mn:
        expect = False
    if mx is not None and cnt > mx:
        expect = False
    verdicts(V, T, list(items), expect, 'contains', lambda: 'cons=%r items=%r matches=%r' % (
        {k: v for k, v in cons.items() if k != 'contains'}, items, cnt))


# ------------------------------------------------------------------ (j) digit counting
class _FakeTuple(tuple):
    pass


def _mk_decimal(sign, digits, exponent):
    """a real Decimal subclass whose as_tuple() returns solver-chosen components"""
    class D(Decimal):
        def as_tuple(self):
            return (sign, digits, exponent)

        def __round__(self, n=None):      # stub: the rounded value is not inspected by this obligation
            return self

        def quantize(self, *a, **k):      # (likewise: completing the value to d places)
            return self
    return D(0)


@ob('digits-unit', marks=['accept', 'reject', 'special'], budget=(90, 200),
    bounds='Constraints.max_digits / decimal_places driven with as_tuple() = (sign, n digits, exponent): '
           'n in 1..6, exponent in -6..6 or one of F/n/N, limit in 0..10 (all symbolic)',
    out='Decimal arithmetic itself (as_tuple is a contract stub); float inputs (str(float) conversion)')
def digits_unit(V):
    which = V.pick('which', ['max_digits', 'decimal_places'])
    limit = V.int('limit', 0, 10)
    n = V.int('n', 1, 6)
    special = V.pick('special', [None, 'F', 'n', 'N'])
    exponent = V.int('exp', -6, 6) if special is None else special
    size = 1
    while size < 6 and not (n == size):
        size += 1
    digits = (1,) + (0,) * (size - 1)
    d = _mk_decimal(V.pick('sign', [0, 1]), digits, exponent)
    fn = getattr(Constraints, which)
    try:
        fn(d, limit)
        ok = True
    except ValueError:
        ok = False
    if special is not None:
        V.check(not ok, 'digits:special-accepted', lambda: 'exponent=%r accepted by %s' % (special, which))
        V.cover('special')
        return
    # reference, from the docs: decimals = digits after the point; max_digits counts significant digits,
    # the integer-side 0 of 0.0123 is not counted, trailing zeros of a fixed-point value are
    if exponent >= 0:
        ref_digits, ref_decimals = n + exponent, 0
    else:
        ref_decimals = -exponent
        ref_digits = n if n >= ref_decimals else ref_decimals
    expect = (ref_digits <= limit) if which == 'max_digits' else (ref_decimals <= limit)
    expect = True if expect else False
    V.check(ok == expect, 'digits:' + which, lambda: 'digits=%r exp=%r %s=%r accepted=%r' % (
        size, exponent, which, limit, ok))
    V.cover('accept' if ok else 'reject')


INT_LITS = [0, 1, 9, 10, -9, -10, 99, 100, -99, -100, 999, 1000, 99999, 100000, -99999, -100000, 999999, 1000000]
DEC_LITS = ['0', '1', '10', '12.5', '0.5', '0.05', '100', '1E+2', '1.50', '-3.25', '123456', '0.001', '1e-7',
            '99.99', '-0', '0.0']


@ob('digits-literals', marks=['accept', 'reject'],
    bounds='Rule[Decimal] / Rule[int] with max_digits 1..6 and (Decimal only) decimal_places 0..3 (symbolic), value '
           'picked from 16 Decimal literals / 18 int literals at the digit-count boundaries -- vocabulary enumeration for Decimal, stated as such',
    out='Decimals outside the vocabulary')
def digits_literals(V):
    md = V.int('max_digits', 1, 6)
    use_int = V.bool('int')
    if use_int:
        x = V.pick('x', INT_LITS)
        T = Rule.annotate(int, constraints={'max_digits': md})
        nd = len(str(abs(x)))
        expect = True if nd <= md else False
        verdicts(V, T, x, expect, 'max_digits:int', lambda: 'max_digits=%r x=%r' % (md, x))
        return
    lit = V.pick('lit', DEC_LITS)
    x = Decimal(lit)
    sign, dg, ex = x.as_tuple()
    if ex >= 0:
        nd, ndec = len(dg) + ex, 0
    else:
        ndec = -ex
        nd = max(len(dg), ndec)
    has_dp = V.bool('has_dp')
    cons = {'max_digits': md}
    nd_eff = nd
    dp_ok = True
    if has_dp:
        dp = V.pick('dp', [0, 1, 2, 3])
        cons['decimal_places'] = dp
        if ndec > dp:
            dp_ok = False
        else:
            # documented: a Decimal is first completed to `decimal_places` places, then max_digits is checked
            s2, dg2, ex2 = round(x, dp).as_tuple()
            nd_eff = len(dg2) + ex2 if ex2 >= 0 else max(len(dg2), -ex2)
    expect = dp_ok and (True if nd_eff <= md else False)
    T = declare(Rule.annotate, Decimal, constraints=cons)
    if T is None:
        return
    r = attempt(T, x)
    V.check(r[0] != 'crash', 'crash:digits', lambda: repr(r[1]))
    ok = r[0] == 'ok'
    V.check(ok == expect, 'verdict:digits-literal', lambda: 'cons=%r x=%r accepted=%r' % (cons, x, ok))
    if ok:
        V.check(r[1] == x, 'altered:digits', lambda: '%r -> %r' % (x, r[1]))
    V.cover('accept' if ok else 'reject')


# ------------------------------------------------------------------ constants with mutable members
MUTABLE_CONSTS = {
    'tuple-of-list': (lambda: ([1, 2], 'x'), lambda r: r[0].append(3)),
    'list-of-list': (lambda: [[1], 2], lambda r: r[0].append(9)),
    'dict-of-list': (lambda: {'k': [1]}, lambda r: r['k'].append(9)),
    'tuple-of-dict': (lambda: ({'a': 1},), lambda r: r[0].__setitem__('b', 2)),
    'list': (lambda: [1, 2], lambda r: r.append(3)),
}


@ob('const/mutable-members', marks=['accept'], budget=(40, 100),
    bounds='const = a tuple / list / dict holding a mutable member (5 shapes): a valid value is accepted; after the accepted result is '
           'mutated in place, the same valid value is still accepted, the mutated value is rejected, and isinstance agrees (the declared '
           'constant is not shared with results)')
def const_mutable_members(V):
    name = V.pick('shape', sorted(MUTABLE_CONSTS))
    mk, mutate = MUTABLE_CONSTS[name]
    with V.notrace():
        T = Rule.annotate(type(mk()), constraints={'const': mk()})
    first = attempt(T, mk())
    V.check(first[0] == 'ok' and first[1] == mk(), 'verdict:const:mutable', lambda: '%s: %r' % (name, first))
    mutate(first[1])
    mutated = first[1]
    again, bad = attempt(T, mk()), attempt(T, mutated)
    det = lambda: '%s: after mutating the first result into %r: the declared value -> %s, the mutated value -> %s' % (
        name, mutated, again[0], bad[0])
    V.check(again[0] == 'ok' and bad[0] == 'err', 'verdict:const:shared-with-result', det)
    V.check(isinst(T, mk()) and not isinst(T, mutated), 'isinstance:const:shared-with-result', det)
    V.cover('accept')
