"""C02 -- validation is exact on well-typed values and agrees with isinstance"""
from utype import Rule, exc
from vt.ob import ob
from vt.h import attempt, kind, isinst, declare

PROP = 'C02'


@ob('int-bounds', marks=['accept', 'reject', 'refused-declaration'],
    bounds='gt/ge x lt/le (9 kind combinations), a, b, x unbounded symbolic ints',
    out='bounds on non-int comparables')
def int_bounds(V):
    lo = V.pick('lo', [None, 'gt', 'ge'])
    hi = V.pick('hi', [None, 'lt', 'le'])
    a, b, x = V.int('a'), V.int('b'), V.int('x')
    cons = {}
    if lo:
        cons[lo] = a
    if hi:
        cons[hi] = b
    T = declare(Rule.annotate, int, constraints=cons)
    if T is None:
        V.cover('refused-declaration')
        return
    expect = True
    if lo == 'gt' and not x > a:
        expect = False
    if lo == 'ge' and not x >= a:
        expect = False
    if hi == 'lt' and not x < b:
        expect = False
    if hi == 'le' and not x <= b:
        expect = False
    r = attempt(T, x)
    V.check(r[0] != 'crash', 'crash', lambda: repr(r[1]))
    ok = r[0] == 'ok'
    V.check(ok == expect, 'verdict:%s%s' % (lo, hi), lambda: 'cons=%r x=%r accepted=%r' % (cons, x, ok))
    if ok:
        V.check(r[1] == x and type(r[1]) is int, 'altered', lambda: '%r -> %r' % (x, r[1]))
    V.check(isinst(T, x) == expect, 'isinstance:%s%s' % (lo, hi), lambda: 'cons=%r x=%r' % (cons, x))
    V.cover('accept' if ok else 'reject')
