"""symbolic worker: python -m vt.worker <PROP> <obligation> <tier> <seed> <journal> <summary>"""
import json
import sys


def main():
    prop, obid, tier, seed, journal, summary = sys.argv[1:7]
    from vt import sx
    sx.install_engine()
    from vt import ob, fmtstub
    _, obs = ob.load(prop)
    o = obs[obid]
    with open(journal, 'w') as jf:
        st = sx.explore(o.fn, tier, o.budget_for(tier), o.per_path_for(tier), jf, seed=int(seed))
    st['fstrings_stubbed'] = fmtstub.STATS['fstrings_stubbed']
    st['fstrings_kept'] = fmtstub.STATS['fstrings_kept']
    st['modules_recompiled'] = fmtstub.STATS['modules']
    with open(summary, 'w') as f:
        json.dump(st, f)


if __name__ == '__main__':
    main()
