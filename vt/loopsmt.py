"""E2 -- SMT obligations generated from the ASTs of `while` loops (termination of numeric normalisation loops).

For every `while` loop found in the given source file the translator tries to recognise the shape

        while abs(X) > <CONST>:        X /= <K>          (or  X = X / <K>)

and derives, from the *current* source:
  * CONST (resolved through class / module level assignments, e.g. MS_WATERSHED = int(2e10)) and K;
  * the domain assumptions established in front of the loop in the same block: `if <cond>: raise ...` statements whose
    condition is one of  not math.isfinite(X) | math.isinf(X) | math.isnan(X) | X != X | X in (inf, -inf)
    (negated and assumed), everything else is ignored (fewer assumptions => the check can only become stricter; every
    counterexample is replayed on the real code before it is reported).

Queries over IEEE Float64 (z3, QF_FP), X ranging over *all* doubles incl. NaN and the infinities:
  Q1  non-progress   domain(x) & guard(x) & not(|x / K| < |x|)          sat   => candidate input on which the loop spins
  Q2  halving lemma  domain(x) & guard(x) & not(|x / K| <= |x| / 2)     unsat => at most log2(DBL_MAX / CONST) < 1100
                                                                                  iterations for every input
The lemma is the unwinding assertion of this encoding: the loop is reported as terminating only if Q1 is unsat and Q2 is
unsat, each confirmed by two solver builds (z3 python wheel and /usr/bin/z3 on the emitted SMT-LIB text).
A loop of any other shape is INCONCLUSIVE (never passed).
"""
import ast
import os
import shutil
import subprocess
import tempfile
import time


class Unrecognised(Exception):
    pass


def _const_value(node, consts):
    """evaluate a small constant expression"""
    if isinstance(node, ast.Constant) and isinstance(node.value, (int, float)):
        return node.value
    if isinstance(node, ast.Call) and isinstance(node.func, ast.Name) and node.func.id in ('int', 'float') and len(node.args) == 1:
        v = _const_value(node.args[0], consts)
        return int(v) if node.func.id == 'int' else float(v)
    if isinstance(node, ast.Attribute) and isinstance(node.value, ast.Name) and node.value.id in ('self', 'cls') and node.attr in consts:
        return consts[node.attr]
    if isinstance(node, ast.Name) and node.id in consts:
        return consts[node.id]
    if isinstance(node, ast.UnaryOp) and isinstance(node.op, ast.USub):
        return -_const_value(node.operand, consts)
    if isinstance(node, ast.BinOp) and isinstance(node.op, (ast.Mult, ast.Pow, ast.Add)):
        l, r = _const_value(node.left, consts), _const_value(node.right, consts)
        return l * r if isinstance(node.op, ast.Mult) else l ** r if isinstance(node.op, ast.Pow) else l + r
    raise Unrecognised('constant expression ' + ast.dump(node)[:80])


def _collect_consts(tree):
    consts = {}
    for node in ast.walk(tree):
        if isinstance(node, ast.Assign) and len(node.targets) == 1 and isinstance(node.targets[0], ast.Name):
            try:
                consts[node.targets[0].id] = _const_value(node.value, consts)
            except Unrecognised:
                pass
    return consts


def _name(node):
    return node.id if isinstance(node, ast.Name) else None


def _guard_condition(test, var):
    """classify `if test: raise` in front of the loop; returns a tag or None"""
    def is_call(n, mod, fn):
        return (isinstance(n, ast.Call) and len(n.args) == 1 and _name(n.args[0]) == var and
                ((isinstance(n.func, ast.Attribute) and n.func.attr == fn) or (isinstance(n.func, ast.Name) and n.func.id == fn)))
    if isinstance(test, ast.UnaryOp) and isinstance(test.op, ast.Not) and is_call(test.operand, 'math', 'isfinite'):
        return 'finite'
    if is_call(test, 'math', 'isinf'):
        return 'notinf'
    if is_call(test, 'math', 'isnan'):
        return 'notnan'
    if isinstance(test, ast.Compare) and len(test.ops) == 1 and isinstance(test.ops[0], ast.NotEq) and \
            _name(test.left) == var and _name(test.comparators[0]) == var:
        return 'notnan'
    if isinstance(test, ast.BoolOp) and isinstance(test.op, ast.Or):
        tags = [_guard_condition(v, var) for v in test.values]
        if all(tags):
            return '+'.join(tags)
    return None


def find_loops(path):
    """[(lineno, function, dict(var, const, k, assumptions) | Unrecognised message)]"""
    src = open(path).read()
    tree = ast.parse(src, path)
    consts = _collect_consts(tree)
    out = []

    def visit_block(stmts, fn, inherited):
        assumptions = list(inherited)
        seen = list(inherited)
        for st in stmts:
            if isinstance(st, ast.While):
                out.append((st.lineno, fn, _recognise(st, consts, seen)))
            if isinstance(st, ast.If) and st.body and isinstance(st.body[-1], ast.Raise) and not st.orelse:
                seen.append(st.test)
            for field in ('body', 'orelse', 'finalbody', 'handlers'):
                sub = getattr(st, field, None)
                if isinstance(sub, list) and sub and not isinstance(st, (ast.FunctionDef, ast.AsyncFunctionDef, ast.ClassDef)):
                    block = []
                    for x in sub:
                        if isinstance(x, ast.ExceptHandler):
                            visit_block(x.body, fn, seen)
                        else:
                            block.append(x)
                    if block:
                        visit_block(block, fn, seen)
            if isinstance(st, (ast.FunctionDef, ast.AsyncFunctionDef)):
                visit_block(st.body, st.name, [])
            if isinstance(st, ast.ClassDef):
                visit_block(st.body, fn, [])

    visit_block(tree.body, '<module>', [])
    return out


def _recognise(loop, consts, guards_before):
    try:
        t = loop.test
        if not (isinstance(t, ast.Compare) and len(t.ops) == 1 and isinstance(t.ops[0], (ast.Gt, ast.GtE))):
            raise Unrecognised('loop test is not `abs(X) > C`')
        left = t.left
        if not (isinstance(left, ast.Call) and _name(left.func) == 'abs' and len(left.args) == 1 and _name(left.args[0])):
            raise Unrecognised('loop test is not `abs(X) > C`')
        var = _name(left.args[0])
        const = float(_const_value(t.comparators[0], consts))
        if len(loop.body) != 1:
            raise Unrecognised('loop body has more than one statement')
        b = loop.body[0]
        if isinstance(b, ast.AugAssign) and isinstance(b.op, ast.Div) and _name(b.target) == var:
            k = float(_const_value(b.value, consts))
        elif isinstance(b, ast.Assign) and len(b.targets) == 1 and _name(b.targets[0]) == var and \
                isinstance(b.value, ast.BinOp) and isinstance(b.value.op, ast.Div) and _name(b.value.left) == var:
            k = float(_const_value(b.value.right, consts))
        else:
            raise Unrecognised('loop body is not `X /= K`')
        tags = []
        for g in guards_before:
            tag = _guard_condition(g, var)
            if tag:
                tags.extend(tag.split('+'))
        return dict(var=var, const=const, k=k, strict=isinstance(t.ops[0], ast.Gt), assumptions=sorted(set(tags)))
    except Unrecognised as e:
        return str(e)


def _queries(spec):
    import z3
    x = z3.FP('x', z3.Float64())
    rm = z3.RNE()
    c = z3.FPVal(spec['const'], z3.Float64())
    k = z3.FPVal(spec['k'], z3.Float64())
    ax = z3.fpAbs(x)
    guard = z3.fpGT(ax, c) if spec['strict'] else z3.fpGEQ(ax, c)
    dom = []
    for a in spec['assumptions']:
        if a == 'finite':
            dom += [z3.Not(z3.fpIsInf(x)), z3.Not(z3.fpIsNaN(x))]
        elif a == 'notinf':
            dom.append(z3.Not(z3.fpIsInf(x)))
        elif a == 'notnan':
            dom.append(z3.Not(z3.fpIsNaN(x)))
    nxt = z3.fpAbs(z3.fpDiv(rm, x, k))
    half = z3.fpDiv(rm, ax, z3.FPVal(2.0, z3.Float64()))
    q1 = dom + [guard, z3.Not(z3.fpLT(nxt, ax))]
    q2 = dom + [guard, z3.Not(z3.fpLEQ(nxt, half))]
    return x, {'non-progress': q1, 'halving-lemma': q2}


def _solve(x, assertions, timeout_s=60):
    """returns dict(z3py=..., z3bin=..., model=float|None, seconds=...)"""
    import z3
    t0 = time.time()
    s = z3.Solver()
    s.set('timeout', int(timeout_s * 1000))
    s.add(*assertions)
    r = str(s.check())
    model = None
    if r == 'sat':
        m = s.model()[x]
        if z3.is_fp(m):
            if m.isInf():
                model = float('-inf') if m.isNegative() else float('inf')
            elif m.isNaN():
                model = float('nan')
            else:
                model = _fp_to_float(m)
    out = {'z3py': r, 'model': model}
    # second opinion: the system z3 binary on the emitted SMT-LIB text
    z3bin = shutil.which('z3')
    if z3bin:
        d = tempfile.mkdtemp(prefix='vt_smt_')
        try:
            f = os.path.join(d, 'q.smt2')
            with open(f, 'w') as fh:
                fh.write('(set-logic QF_FP)\n' + s.to_smt2())
            p = subprocess.run([z3bin, '-T:%d' % timeout_s, f], stdout=subprocess.PIPE, stderr=subprocess.STDOUT,
                               timeout=timeout_s + 10)
            txt = p.stdout.decode('utf8', 'replace')
            out['z3bin'] = 'error' if '(error' in txt else txt.strip().splitlines()[0] if txt.strip() else 'no output'
        except Exception as e:  # noqa
            out['z3bin'] = 'error:' + type(e).__name__
        finally:
            shutil.rmtree(d, ignore_errors=True)
    else:
        out['z3bin'] = 'absent'
    out['seconds'] = round(time.time() - t0, 2)
    return out


def _fp_to_float(m):
    import struct
    import z3
    bv = z3.simplify(z3.fpToIEEEBV(m))
    return struct.unpack('>d', bv.as_long().to_bytes(8, 'big'))[0]


def check_file(path, replay, rel=None):
    """one result per while loop in `path`.  replay(value) -> 'hang' | 'ok' (runs the real code under a watchdog)."""
    results = []
    rel = rel or path
    for lineno, fn, spec in find_loops(path):
        oid = 'loopsmt/%s:%s:%d' % (rel, fn, lineno)
        res = dict(id=oid, paths=0, validated=0, unknown={}, exhausted=False, decisions=0, solver_calls=0, solver_s=0.0,
                   cpu_s=None, wall_s=0.0, marks_hit=[], marks_missing=[], violations=[], aborted=None,
                   expected_exhaustive=True, functions=['%s:%s' % (rel, fn)], samples=[], error_samples=[])
        t0 = time.time()
        if isinstance(spec, str):
            res.update(verdict='INCONCLUSIVE', unknown={'loop_shape_not_recognised:' + spec: 1},
                       bounds='while loop at %s:%d (shape not recognised: %s)' % (rel, lineno, spec), outside='')
            results.append(res)
            continue
        res['bounds'] = ('while abs(%s) %s %r: %s /= %r ; %s over all IEEE doubles; assumptions read from the guards in front '
                         'of the loop: %s' % (spec['var'], '>' if spec['strict'] else '>=', spec['const'], spec['var'],
                                              spec['k'], spec['var'], spec['assumptions'] or 'none'))
        res['outside'] = 'Decimal and int operands (exercised concretely by the E1 termination obligations)'
        x, qs = _queries(spec)
        verdicts = {}
        for name, q in qs.items():
            r = _solve(x, q)
            verdicts[name] = r
            res['solver_calls'] += 2
            res['solver_s'] += r['seconds']
            res['paths'] += 1
        res['extra'] = {k: {kk: (repr(vv) if isinstance(vv, float) else vv) for kk, vv in v.items()} for k, v in verdicts.items()}
        np_, hl = verdicts['non-progress'], verdicts['halving-lemma']
        agree = all(v['z3py'] == v['z3bin'] for v in verdicts.values())
        if np_['z3py'] == 'sat' and np_['model'] is not None:
            outcome = replay(np_['model'])
            if outcome == 'hang':
                res['violations'].append({'sig': 'termination:loop-spins', 'detail': '%s:%d: the loop does not make progress for %s = %r '
                                          '(z3 model of the non-progress query); the real call did not return within the '
                                          'watchdog' % (rel, lineno, spec['var'], np_['model']),
                                          'witness': {'x': {'$f': repr(np_['model'])}, 'target': 0}, 'symbolic_verdict': 'sat',
                                          'path': 1, 'replay_obligation': 'termination/number'})
                res['verdict'] = 'VIOLATION'
            else:
                res['verdict'] = 'INCONCLUSIVE'
                res['unknown'] = {'engine_imprecision:smt_model_did_not_reproduce': 1}
        elif np_['z3py'] == 'unsat' and hl['z3py'] == 'unsat' and agree:
            res['verdict'] = 'PROVED-IN-BOUNDS'
            res['exhausted'] = True
            res['validated'] = 2
        else:
            res['verdict'] = 'INCONCLUSIVE'
            res['unknown'] = {'solver:%s/%s/%s/%s' % (np_['z3py'], np_['z3bin'], hl['z3py'], hl['z3bin']): 1}
        res['wall_s'] = round(time.time() - t0, 1)
        res['solver_s'] = round(res['solver_s'], 2)
        results.append(res)
    return results
