"""Import hook: load utype from /repo source with message-formatting f-strings stubbed out.

Only f-strings that build *diagnostic text* are replaced by a constant:
  - anywhere inside a `raise` statement,
  - arguments of calls to *.warn / *.collect_waring / warnings.warn / warning_settings(...),
  - arguments of calls whose callee name ends with 'Error' / 'Exceed' etc. (exc.* constructors),
  - every f-string in utype/utils/exceptions.py.
Semantically relevant f-strings (routes, forward keys, '1970-01-01 {data}') are left alone.
"""
import ast, sys, importlib.abc, importlib.util, os

REPO = os.environ.get('UTYPE_REPO', '/repo')
STATS = {'modules': 0, 'fstrings_stubbed': 0, 'fstrings_kept': 0}


class _Stub(ast.NodeTransformer):
    def __init__(self, whole_module):
        self.depth = 1 if whole_module else 0
        self.whole = whole_module

    def _enter(self, node):
        self.depth += 1
        self.generic_visit(node)
        self.depth -= 1
        return node

    def visit_Raise(self, node):
        return self._enter(node)

    def visit_Call(self, node):
        f = node.func
        name = f.attr if isinstance(f, ast.Attribute) else f.id if isinstance(f, ast.Name) else ''
        if self.whole and isinstance(f, ast.Name) and name in ('str', 'repr') and len(node.args) == 1:
            # utils/exceptions.py: str(origin_exc) / repr(value) only build diagnostic text
            STATS['fstrings_stubbed'] += 1
            return ast.copy_location(ast.Constant('<msg>'), node)
        if name in ('warn', 'collect_waring', 'warning_settings') or name.endswith('Error') or name in (
                'InvalidInstance', 'InvalidSubclass'):
            return self._enter(node)
        self.generic_visit(node)
        return node

    def visit_JoinedStr(self, node):
        if self.depth:
            STATS['fstrings_stubbed'] += 1
            return ast.copy_location(ast.Constant('<msg>'), node)
        STATS['fstrings_kept'] += 1
        return node


class Loader(importlib.abc.SourceLoader):
    def __init__(self, fullname, path):
        self.fullname, self.path = fullname, path

    def get_filename(self, fullname):
        return self.path

    def get_data(self, path):
        with open(path, 'rb') as f:
            return f.read()

    def source_to_code(self, data, path, *, _optimize=-1):
        tree = ast.parse(data, path)
        tree = _Stub(path.endswith('utils/exceptions.py')).visit(tree)
        ast.fix_missing_locations(tree)
        STATS['modules'] += 1
        return compile(tree, path, 'exec', dont_inherit=True, optimize=_optimize)

    def get_code(self, fullname):      # never use .pyc caches
        return self.source_to_code(self.get_data(self.path), self.path)


class Finder(importlib.abc.MetaPathFinder):
    def find_spec(self, fullname, path, target=None):
        if fullname != 'utype' and not fullname.startswith('utype.'):
            return None
        rel = fullname.replace('.', '/')
        for cand, pkg in ((os.path.join(REPO, rel, '__init__.py'), True), (os.path.join(REPO, rel + '.py'), False)):
            if os.path.exists(cand):
                return importlib.util.spec_from_file_location(
                    fullname, cand, loader=Loader(fullname, cand),
                    submodule_search_locations=[os.path.dirname(cand)] if pkg else None)
        return None


def install():
    assert 'utype' not in sys.modules
    sys.meta_path.insert(0, Finder())
