"""concrete replay on the pristine library (no CrossHair, no import hook, no stubs).

python -m vt.replay <PROP> <obligation> <tier> <journal> <out> [start_index]
Every journalled witness is run through the same harness with the concrete back end; one JSON line per
witness is written to <out>: {"i":..,"v":"ok|fail|hang|mismatch|harness_exception","sig":..}
"""
import json
import os
import signal
import sys
import traceback

WATCHDOG_S = float(os.environ.get('VT_REPLAY_WATCHDOG', '8'))


def run_one(fn, witness, tier, profile=None):
    from vt.sx import ConcV, PropFail, ReplayMismatch, Hang
    V = ConcV(witness, tier)

    def on_alarm(signum, frame):
        raise Hang()

    signal.signal(signal.SIGALRM, on_alarm)
    signal.setitimer(signal.ITIMER_REAL, WATCHDOG_S)
    if profile is not None:
        def prof(frame, event, arg):
            if event == 'call':
                co = frame.f_code
                if '/utype/' in co.co_filename:
                    profile.add(co.co_filename.split('/utype/', 1)[1] + ':' + co.co_qualname)
        sys.setprofile(prof)
    try:
        try:
            fn(V)
            r = {'v': 'ok'}
        finally:
            signal.setitimer(signal.ITIMER_REAL, 0)
            sys.setprofile(None)
    except PropFail as f:
        d = f.detail
        try:
            d = d() if callable(d) else d
        except Exception as e:  # noqa
            d = 'detail failed: %r' % (e,)
        r = {'v': 'fail', 'sig': str(f.sig), 'detail': str(d)[:600]}
    except Hang:
        r = {'v': 'hang', 'sig': 'hang'}
    except ReplayMismatch as e:
        r = {'v': 'mismatch', 'why': str(e)}
    except Exception as e:
        r = {'v': 'harness_exception', 'why': type(e).__name__,
             'tb': ''.join(traceback.format_exception(e))[-1500:]}
    r['marks'] = sorted(V.marks)
    return r


def main():
    prop, obid, tier, journal, out = sys.argv[1:6]
    start = int(sys.argv[6]) if len(sys.argv) > 6 else 0
    import warnings
    warnings.simplefilter('ignore')
    from vt import ob
    _, obs = ob.load(prop)
    o = obs[obid]
    profile = set()
    n = 0
    with open(out, 'a') as of:
        for line in open(journal):
            e = json.loads(line)
            if e['i'] <= start or e.get('w') is None:
                continue
            of.write(json.dumps({'i': e['i'], 'v': 'started'}) + '\n')
            of.flush()
            r = run_one(o.fn, e['w'], tier, profile if n < 40 else None)
            n += 1
            r['i'] = e['i']
            of.write(json.dumps(r) + '\n')
            of.flush()
        of.write(json.dumps({'i': -1, 'v': 'done', 'functions': sorted(profile)}) + '\n')


if __name__ == '__main__':
    main()
