"""Declarative data-class specifications shared by C05 / C06 / C10 / C13:
   spec -> real utype class (Schema or DataClass)   and   spec -> reference outcome (the documented field contract).

All fields are `int` typed (optionally `ge=0`), so "conforming value" = int (and >= 0); inputs are unbounded solver
integers, the convertible string '5' or the invalid string 'x'.
"""
from typing import Final, List

from utype import DataClass, Field, Options, Schema, exc

LIST_INT = List[int]

UNSET = object()


def F(name, required=None, default=UNSET, factory=None, defer=False, alias=None, alias_from=(), ci=None,
      no_input=False, no_output=False, mode=None, deps=(), on_error=None, ge=None, immutable=False, alias_fn=None, generated=False, final=False):
    """alias / alias_from are the names the documentation prescribes; alias_fn is the callable given to Field(alias=...) that
    must produce `alias`; generated=True means alias / alias_from come from the class-level generators (not passed to Field)"""
    return dict(alias_fn=alias_fn, generated=generated, name=name, required=required, default=default, factory=factory, defer=defer, alias=alias,
                alias_from=tuple(alias_from), ci=ci, no_input=no_input, no_output=no_output, mode=mode,
                deps=tuple(deps), on_error=on_error, ge=ge, immutable=immutable, final=final)


def seven():
    return 7


def upper_x(name):
    return name.upper() + 'X'


def gen_out(name):
    return name + '_g'


def gen_in(name):
    return 'in_' + name


CLASS_OPTIONS = {'aliasgen': {'alias_generator': gen_out, 'alias_from_generator': gen_in}}


SPECS = {
    'basic': [F('a'), F('b', default=3), F('c', required=False)],
    'alias': [F('a', alias='A1'), F('b', alias_from=['b1', 'b2'], default=0),
              F('c', alias='cc', alias_from=['c1'], required=False)],
    'case': [F('a', ci=True), F('b', alias_from=['B1'], ci=True, default=5), F('c', default=0)],
    'io': [F('a', no_input=True, default=9), F('b', no_output=True), F('c', no_input=True, required=False),
           F('d', default=1, no_output=True)],
    'mode': [F('a', mode='r'), F('b', mode='w', default=2), F('c', mode='ra', no_input='a', factory=seven),
             F('d', no_output='r', default=4), F('e', required='w', mode='wa')],
    'deps': [F('a', required=False, deps=['b']), F('b', default=0), F('c', required=False, deps=['a'])],
    'onerr': [F('a', ge=0, on_error='exclude', default=7), F('b', ge=0, on_error='exclude', required=False),
              F('c', ge=0, on_error='preserve', required=False), F('d', ge=0)],
    'defer': [F('a', default=1, defer=True), F('b', factory=seven, defer=True), F('c', default=3)],
    'aliasgen': [F('a', alias='AX', alias_fn=upper_x, alias_from=['in_a'], generated=True), F('b', alias='b_g', alias_from=['in_b'], generated=True, default=1),
                 F('c', alias='cc', alias_from=['c1'], required=False)],
    'depio': [F('x', required=False, deps=['y']), F('y', no_input=True, default=9), F('z', default=0, deps=['x'])],
    'aliaserr': [F('a', alias_from=['a1'], on_error='exclude', required=False, ge=0), F('b', alias='B1', alias_from=['b2'], ge=0, on_error='preserve', required=False),
                 F('c', default=1)],
    # Final annotations: without a default the field takes input (once), with a default it takes none
    'final': [F('a', final=True), F('b', final=True, default=3, no_input=True), F('c', default=1)],
    # a field restricted by its own mode AND by a mode-string switch
    'modeout': [F('a', mode='rw', no_output='r', default=0), F('b', mode='wa', no_input='a', default=1), F('c', default=2)],
    'modereq': [F('a', required='w', default=6), F('b', required='a', factory=seven), F('c', required='r', default=1, no_output='w')],
    'mix': [F('a', alias='A1', ci=True), F('b', alias_from=['b1'], default=0, deps=['a']),
            F('c', no_input=True, default=2), F('d', ge=0, on_error='exclude', required=False)],
}


def field_obj(f):
    kw = {}
    if f['required'] is not None:
        kw['required'] = f['required']
    if f['default'] is not UNSET:
        kw['default'] = f['default']
    if f['factory']:
        kw['default_factory'] = f['factory']
    if f['defer']:
        kw['defer_default'] = True
    if f['alias_fn']:
        kw['alias'] = f['alias_fn']
    elif f['alias'] and not f['generated']:
        kw['alias'] = f['alias']
    if f['alias_from'] and not f['generated']:
        kw['alias_from'] = list(f['alias_from'])
    if f['ci'] is not None:
        kw['case_insensitive'] = f['ci']
    if f['no_input']:
        kw['no_input'] = f['no_input']
    if f['no_output']:
        kw['no_output'] = f['no_output']
    if f['mode']:
        kw['mode'] = f['mode']
    if f['deps']:
        kw['dependencies'] = list(f['deps'])
    if f['on_error']:
        kw['on_error'] = f['on_error']
    if f['ge'] is not None:
        kw['ge'] = f['ge']
    if f['immutable']:
        kw['immutable'] = True
    return Field(**kw)


_CACHE = {}


def make_class(spec_id, base='Schema', class_opts=None):
    """real utype class for a spec with the given class-level Options (cached per option set)"""
    key = (spec_id, base, tuple(sorted(((k, repr(v)) for k, v in (class_opts or {}).items()))))
    if key in _CACHE:
        return _CACHE[key]
    spec = SPECS[spec_id]
    name = 'D_%s_%s' % (spec_id, base)
    ns = {'__annotations__': {f['name']: (Final[int] if f['final'] else int) for f in spec}, '__module__': __name__, '__qualname__': name}
    for f in spec:
        ns[f['name']] = field_obj(f)
    class_opts = dict(CLASS_OPTIONS.get(spec_id, {}), **(class_opts or {}))
    if class_opts:
        ns['__options__'] = Options(**class_opts)
    b = Schema if base == 'Schema' else DataClass
    cls = type(b)(name, (b,), ns)
    _CACHE[key] = cls
    return cls


# ------------------------------------------------------------------------------------------ key vocabulary
def names_of(f):
    out = [f['name']]
    if f['alias'] and f['alias'] not in out:
        out.append(f['alias'])
    for a in f['alias_from']:
        if a not in out:
            out.append(a)
    return out


def out_name(f):
    return f['alias'] or f['name']


def swapcase_variant(s):
    return s.upper() if s != s.upper() else s.lower()


def key_vocab(spec_id, limit=9):
    """unknown key 'zz' + accepted spellings (round-robin over the fields: names first, then second spellings, ...)
    + one case variant per field (accepted only if the field is case-insensitive); truncated to `limit` keys"""
    spec = SPECS[spec_id]
    keys = []
    rank = 0
    while True:
        added = False
        for f in spec:
            ns = names_of(f)
            if rank < len(ns):
                added = True
                if ns[rank] not in keys:
                    keys.append(ns[rank])
        if not added:
            break
        rank += 1
    variants = []
    for f in spec:
        v = swapcase_variant(names_of(f)[-1])
        if v not in keys and v not in variants:
            variants.append(v)
    # interleave: names, then alternate second spellings and case variants
    n = len(spec)
    out = keys[:n]
    rest, i, j = keys[n:], 0, 0
    while i < len(rest) or j < len(variants):
        if i < len(rest):
            out.append(rest[i]); i += 1
        if j < len(variants):
            out.append(variants[j]); j += 1
    if limit:
        out = out[:limit - 1]
    return out + ['zz']


# ------------------------------------------------------------------------------------------ reference model
def is_ci(f, o):
    return bool(f['ci']) if f['ci'] is not None else bool(o.get('case_insensitive'))


def matches(f, key, o):
    ns = names_of(f)
    if key in ns:
        return True
    if is_ci(f, o):
        return key.lower() in [n.lower() for n in ns]
    return False


def mode_flag(v, mode, fmode):
    """value of a bool-or-mode-string switch (no_input / no_output) in the current mode"""
    if v is True:
        return True
    if mode:
        if isinstance(v, str) and mode in v:
            return True
        if fmode and mode not in fmode:
            return True
    return False


def conv_int(v, ge):
    """('ok', int) | ('bad',)  -- lenient int conversion of the harness' value kinds"""
    if isinstance(v, bool):
        v = int(v)
    elif isinstance(v, str):
        if v.lstrip('-').isdigit() and v.isascii():
            v = int(v)
        else:
            return ('bad',)
    elif not isinstance(v, int):
        return ('bad',)
    if ge is not None and v < ge:
        return ('bad',)
    return ('ok', v)


def reference(spec_id, o, items):
    """the documented contract.  o: options dict; items: ordered [(key, value)].
    Returns dict(errors=set, keys={output name: value | ANY-OF-set}, attrs={attname: ...}, deferred={attname: value})
    Values that the documentation leaves open (several spellings of one field with ignore_alias_conflicts) are
    represented as a tuple ('one-of', [candidates])."""
    spec = SPECS[spec_id]
    mode = o.get('mode')
    errors = set()
    optional = set()
    keys, attrs, deferred = {}, {}, {}
    n = len(items)
    if o.get('max_params') and n > o['max_params']:
        errors.add('params_exceed')
    if o.get('min_params') and n < o['min_params']:
        errors.add('params_lack')
    provided = set()     # attnames given by the input (and accepted)
    maybe = set()        # attnames whose providedness the documentation leaves open (conflicting spellings)
    present = set()      # attnames that hold a value in the result
    used = set()
    for f in spec:
        sup = [(k, v) for k, v in items if matches(f, k, o)]
        used.update(k for k, v in sup)
        no_in = mode_flag(f['no_input'], mode, f['mode'])
        no_out = mode_flag(f['no_output'], mode, f['mode'])
        req = f['required']
        if req is None:
            req = f['default'] is UNSET and not f['factory']
        if isinstance(req, str):
            required = bool(mode) and mode in req
        else:
            required = bool(req)
        if o.get('ignore_required') or 'force_default' in o or no_in:
            required = False
        val = UNSET
        if sup and not no_in:
            vals = [v for k, v in sup]
            distinct = []
            for v in vals:
                if not any(v == d and type(v) is type(d) for d in distinct):
                    distinct.append(v)
            if len(distinct) > 1 and not o.get('ignore_alias_conflicts'):
                if any(a != b for a in distinct for b in distinct):
                    errors.add('alias_conflict:' + out_name(f))
                    # one of the spellings may be invalid as well, and whether the field counts as provided for
                    # dependency purposes is not specified: both may or may not be reported next to the conflict
                    _pol = f['on_error'] or o.get('invalid_values') or 'throw'
                    if any(conv_int(raw, f['ge'])[0] != 'ok' for raw in distinct) and \
                            (_pol == 'throw' or (_pol == 'exclude' and required)):
                        # (a required field is never excluded: its invalid spelling is an error under 'exclude' as well)
                        optional.add('parse:' + out_name(f))
                    if any(g['deps'] for g in spec):
                        optional.add('dependency')
                    maybe.add(f['name'])
                    continue
            cands = []
            for raw in (distinct if len(distinct) > 1 else distinct[:1]):
                r = conv_int(raw, f['ge'])
                if r[0] == 'ok':
                    cands.append(('v', r[1]))
                else:
                    pol = f['on_error'] or o.get('invalid_values') or 'throw'
                    if pol == 'preserve':
                        cands.append(('v', raw))
                    elif pol == 'exclude' and not required:
                        cands.append(('default',))
                    else:
                        cands.append(('err',))
            if len(cands) == 1 or all(x == cands[0] for x in cands):
                # (several spellings with the same outcome -- e.g. every one excluded -- are one outcome)
                c = cands[0]
            else:
                c = ('one-of', cands)
            if c[0] == 'err':
                errors.add('parse:' + out_name(f))
                continue
            if c[0] == 'one-of':
                # undetermined by the documentation: any candidate outcome is acceptable
                val = c
                provided.add(f['name'])
                if any(x[0] == 'err' for x in cands):
                    optional.add('parse:' + out_name(f))
                    maybe.add(f['name'])
                if any(x[0] != 'v' for x in cands) and any(g['deps'] for g in spec):
                    optional.add('dependency')
            elif c[0] == 'v':
                val = c[1]
                provided.add(f['name'])
            elif c[0] == 'default' and f['deps']:
                # excluded by policy and replaced by its default: whether its dependencies still apply is left open
                optional.add('dependency')
            # ('default',) falls through to the default logic with val UNSET
        if val is UNSET:
            if required:
                errors.add('absence:' + out_name(f))
                continue
            dv = UNSET
            if not o.get('no_default'):
                if 'force_default' in o:
                    dv = o['force_default']
                elif f['default'] is not UNSET:
                    dv = f['default']
                elif f['factory']:
                    dv = f['factory']()
            if dv is UNSET:
                continue
            if f['defer'] or o.get('defer_default'):
                deferred[f['name']] = dv
                continue
            val = dv
        present.add(f['name'])
        attrs[f['name']] = val
        if not no_out:
            keys[out_name(f)] = val
    # dependencies of provided fields must be provided by the input
    for f in spec:
        if f['name'] in provided:
            for d in f['deps']:
                dspec = [g for g in spec if g['name'] == d]
                if d in maybe or f['name'] in maybe:
                    optional.add('dependency')
                elif dspec and mode_flag(dspec[0]['no_input'], mode, dspec[0]['mode']):
                    # a dependency on a field that takes no input: whether supplying its (ignored) key satisfies the
                    # dependency is not specified
                    optional.add('dependency')
                elif d not in provided:
                    errors.add('dependency')
    # unknown keys
    add = o.get('addition')
    for k, v in items:
        if k in used:
            continue
        if add is False:
            errors.add('exceed:' + k)
        elif add is True:
            keys[k] = v
            attrs[k] = v
        elif add is int or add is LIST_INT:
            r = conv_int(v, None)
            if add is LIST_INT and r[0] == 'ok':
                r = ('ok', [r[1]])
            if r[0] == 'ok':
                keys[k] = r[1]
                attrs[k] = r[1]
            else:
                pol = o.get('invalid_values') or 'throw'
                if pol == 'preserve':
                    keys[k] = v
                    attrs[k] = v
                elif pol == 'throw':
                    errors.add('parse:' + k)
    return dict(errors=errors, optional=optional - errors, keys=keys, attrs=attrs, deferred=deferred)


# ------------------------------------------------------------------------------------------ implementation side
def err_kind(e):
    if isinstance(e, exc.DependenciesAbsenceError):
        return 'dependency'
    if isinstance(e, exc.AbsenceError):
        return 'absence:%s' % e.item
    if isinstance(e, exc.AliasConflictError):
        return 'alias_conflict:%s' % e.item
    if isinstance(e, exc.ParamsExceedError):
        return 'params_exceed'
    if isinstance(e, exc.ParamsLackError):
        return 'params_lack'
    if isinstance(e, exc.ExceedError):
        return 'exceed:%s' % e.item
    if isinstance(e, exc.ParseError):
        return 'parse:%s' % e.item
    return 'crash:' + type(e).__name__


def err_kinds(e):
    if isinstance(e, exc.CollectedParseError):
        out = set()
        for x in e.errors:
            out |= err_kinds(x)
        return out
    return {err_kind(e)}


def run_impl(cls, items, runtime=None):
    """('ok', key view, attribute view, instance) | ('err', kinds, exception) | ('crash', exception)
    options come from the class unless `runtime` (an options dict for cls.__from__(data, options=...)) is given"""
    try:
        if runtime is not None:
            inst = cls.__from__(dict(items), options=Options(**runtime))
        else:
            inst = cls.__from__(dict(items))
    except exc.ParseError as e:
        return ('err', err_kinds(e), e)
    except Exception as e:  # noqa
        return ('crash', e)
    if isinstance(inst, dict):
        kv = dict(inst)
    else:
        kv = None
    av = {k: v for k, v in inst.__dict__.items() if not k.startswith('__')}
    return ('ok', kv, av, inst)
