"""debug helper: python -m vt.debug <PROP> <obligation> [n_paths]
runs a few symbolic paths and prints where CrossHair realised symbolic values (the realisation profiler)"""
import collections
import io
import json
import sys
import traceback


def main():
    prop, obid = sys.argv[1:3]
    n = int(sys.argv[3]) if len(sys.argv) > 3 else 30
    from vt import sx
    sx.install_engine()
    from vt import ob
    import crosshair.statespace as ss
    sites = collections.Counter()
    orig = ss.StateSpace.find_model_value

    def fmv(self, expr, *a, **k):
        if not self.is_detached:
            st = traceback.extract_stack()[:-1]
            tail = [f for f in st if '/crosshair/' not in f.filename and '/vt/sx.py' not in f.filename][-3:]
            sites[(str(expr)[:60], ' <- '.join('%s:%d' % (f.filename.split('/')[-1], f.lineno) for f in reversed(tail)))] += 1
        return orig(self, expr, *a, **k)

    ss.StateSpace.find_model_value = fmv
    _, obs = ob.load(prop)
    o = obs[obid]
    buf = io.StringIO()
    st = sx.explore(o.fn, 'quick', 600, 20, buf, max_paths=n)
    print(json.dumps({k: v for k, v in st.items()}, indent=None))
    shown = 0
    for line in buf.getvalue().splitlines()[:n]:
        e = json.loads(line)
        if e['v'] == 'ok' and e['i'] > 5:
            continue
        shown += 1
        if shown > 12:
            break
        print(e['i'], e['v'], e.get('sig', ''), e.get('why', ''), json.dumps(e.get('w'))[:200])
        if e.get('tb'):
            print(e['tb'])
    print('--- realisation sites')
    for (expr, where), c in sites.most_common(25):
        print(c, expr, '@', where)


if __name__ == '__main__':
    main()
