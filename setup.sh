#!/bin/bash
# idempotent, offline: overlay venv on /venv with crosshair-tool + jsonschema from the local wheelhouse
set -e
cd "$(dirname "$0")"
exec 9>.setup.lock
flock 9
if [ -x .venv/bin/python ] && .venv/bin/python -c "import crosshair, z3, jsonschema, utype" 2>/dev/null; then
  exit 0
fi
rm -rf .venv
/venv/bin/python -m venv .venv
SP=$(.venv/bin/python -c "import sysconfig; print(sysconfig.get_paths()['purelib'])")
echo "import site; site.addsitedir('/venv/lib/python3.12/site-packages')" > "$SP/_overlay.pth"
PIP_NO_INDEX=1 .venv/bin/pip install -q --no-index --find-links /opt/veriftools/wheels crosshair-tool jsonschema
.venv/bin/python -c "import crosshair, z3, jsonschema, utype; print('vt env ok', crosshair.__version__, z3.get_version_string())"
