#!/usr/bin/env python3
"""print the markdown table of /verif/seeded (used for DESIGN.md section 11)"""
import json, os, re
rows = []
for d in sorted(os.listdir('/verif/seeded')):
    m = json.load(open('/verif/seeded/%s/meta.json' % d))
    need = re.sub(r'\s+', ' ', m.get('needs_to_manifest', '')).strip()
    need = re.sub(r'^(Change( [AB])?|CHANGE)\s*[:\-—]*\s*', '', need)
    need = need.replace('|', '/')
    if len(need) > 150:
        need = need[:147] + '...'
    rows.append('| %s | %s | %s | %s |' % (m['id'], need, m.get('detected', ''), (m.get('detected_by') or '').replace('|', '/')))
print('| change | what was changed (from the author\'s note) | caught as the checks stood | caught by |')
print('|---|---|---|---|')
print('\n'.join(rows))
import collections
c = collections.Counter(json.load(open('/verif/seeded/%s/meta.json' % d)).get('detected') for d in os.listdir('/verif/seeded'))
print('\n', dict(c))
