#!/bin/bash
# eval_mutant.sh <PROP> <dir with patch.diff demo.py> [extra check args]
# confirms the seeded change in a scratch worktree of /repo HEAD (tests pass, demo fails with / passes without),
# then runs ./check <PROP> --tier quick against that worktree (UTYPE_REPO) without touching /repo or the evidence.
set -u
PROP=$1; DIR=$2; shift 2
WT=$(mktemp -d /tmp/mutwt_XXXX)
rmdir "$WT"
git -C /repo worktree add -q --detach "$WT" HEAD || exit 9
cleanup() { git -C /repo worktree remove --force "$WT" 2>/dev/null; rm -rf "$WT"; }
trap cleanup EXIT
cd "$WT"
PYTHONPATH="$WT" /venv/bin/python "$DIR/demo.py" >/dev/null 2>&1; BASE_DEMO=$?
if ! git apply --3way "$DIR/patch.diff" 2>/tmp/apply.err && ! git apply "$DIR/patch.diff" 2>>/tmp/apply.err; then
  echo "RESULT $PROP $DIR patch-does-not-apply"; cat /tmp/apply.err | head -5; exit 2
fi
git reset -q 2>/dev/null
PYTHONPATH="$WT" /venv/bin/python -m pytest -q -p no:cacheprovider -x >/tmp/mut_tests.log 2>&1; TESTS=$?
PYTHONPATH="$WT" /venv/bin/python "$DIR/demo.py" >/tmp/mut_demo.log 2>&1; DEMO=$?
echo "confirm: demo_on_clean_head=$BASE_DEMO tests_with_patch=$TESTS demo_with_patch=$DEMO"
cd /verif
UTYPE_REPO="$WT" ./check "$PROP" --tier quick --no-evidence "$@" > /tmp/mut_check_${PROP}_$(basename "$DIR").log 2>&1; RC=$?
NV=$(grep -c "^VIOLATION property" /tmp/mut_check_${PROP}_$(basename "$DIR").log)
echo "RESULT $PROP $DIR check_exit=$RC violations=$NV base_demo=$BASE_DEMO tests=$TESTS demo=$DEMO"
grep "^violation in" /tmp/mut_check_${PROP}_$(basename "$DIR").log | cut -c1-300 | head -4
