#!/usr/bin/env python3
"""markdown table of what the quick tier reached, from evidence/*.json (used for DESIGN.md section 9.3)"""
import json, os
print('| | obligations | proved in bounds | explored | carrying a known finding | inconclusive | paths (all replayed) | solver queries / s | wall s |')
print('|---|---|---|---|---|---|---|---|---|')
tot = [0] * 5
for i in range(1, 21):
    p = '/verif/evidence/C%02d.json' % i
    d = json.load(open(p))
    c = d['coverage']
    v = c.get('verdicts', {})
    row = [c.get('obligations', 0), v.get('PROVED-IN-BOUNDS', 0), v.get('EXPLORED-NO-VIOLATION', 0), v.get('KNOWN-FINDING', 0),
           v.get('INCONCLUSIVE', 0) + v.get('VACUOUS', 0)]
    tot = [a + b for a, b in zip(tot, row)]
    s = c.get('solver', {})
    print('| C%02d (%s) | %d | %d | %d | %d | %d | %d | %s / %.0f | %.0f |' % (
        i, d.get('tier'), row[0], row[1], row[2], row[3], row[4], c.get('states', 0), s.get('queries'), s.get('seconds', 0), d.get('wall_s', 0)))
print('| **all** | %d | %d | %d | %d | %d | | | |' % tuple(tot))
