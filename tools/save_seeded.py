#!/usr/bin/env python3
"""save_seeded.py <PROP> <src dir> <id> <caught: yes|no|after-strengthening> <detected by (free text)>"""
import json, os, shutil, sys
prop, src, sid, caught, by = sys.argv[1:6]
dst = os.path.join('/verif/seeded', sid)
os.makedirs(dst, exist_ok=True)
for f in ('patch.diff', 'demo.py', 'note.txt'):
    shutil.copy(os.path.join(src, f), os.path.join(dst, f))
note = open(os.path.join(src, 'note.txt')).read().strip()
meta = {
    'id': sid, 'property': prop,
    'needs_to_manifest': note,
    'origin': 'written by an independent sub-agent that saw only the property text and a scratch worktree of /repo',
    'confirmed': 'tools/eval_mutant.sh %s <dir>: in a fresh scratch worktree of /repo HEAD the patch applies, the existing suite '
                 '(115 tests) passes with it, demo.py exits non-zero with it and 0 without it' % prop,
    'detected': caught, 'detected_by': by,
}
json.dump(meta, open(os.path.join(dst, 'meta.json'), 'w'), indent=1)
print('saved', dst)
